import Canopy.Proof.Key
import Canopy.Gen.Keys
import Canopy.Proof.SignBytes
import Canopy.Gen.Proto
import Canopy.Model.ProtoCrit
import Canopy.Proof.Merkle
/-!
# C19 (a) — composite store keys never collide and never fall into each other's prefix range

The key builders are the *generated* translations of `fsm/key.go` and `store/indexer.go`
(`Canopy.Gen.fsm.*`, `Canopy.Gen.indexer.*`). `FsmKey`/`IdxKey` enumerate every builder; the theorems
say that the byte encoding determines the builder and all of its components, and that a byte-prefix
scan over an encoded prefix returns exactly the keys whose leading *segments* are that prefix.

Hypothesis carried explicitly (what the real `JoinLenPrefix` does not give for free): every
caller-supplied byte string has length ≤ 255 and is non-nil (`nil` is skipped by the Go code, lengths
≥ 256 are truncated to one byte). Addresses (20 bytes), hashes (32) and order ids (20) satisfy it; the
correspondence run exercises the boundary.
-/
namespace Canopy.C19
open Canopy Canopy.Gen

/-! ## structural facts the translation relies on -/

/-- the translator inlines `Indexer.key` as `JoinLenPrefix(prefix, param1, param2)` -/
theorem indexer_key_is_join : src_indexer_key = "return lib.JoinLenPrefix(prefix, param1, param2)" := by decide

/-- the FSM builder set is exactly the one `FsmKey` enumerates (a new builder must be added there) -/
theorem fsm_emitted : fsm.emitted = ["AccountPrefix", "CommitteePrefix", "CommitteesDataPrefix", "DelegatePrefix", "KeyForAccount", "KeyForCommittee", "KeyForDelegate", "KeyForLockedBatch", "KeyForNextBatch", "KeyForNonSigner", "KeyForOrder", "KeyForPaused", "KeyForPool", "KeyForRetiredCommittee", "KeyForUnstaking", "KeyForValidator", "LastProposersPrefix", "NonSignerPrefix", "OrderBookPrefix", "PausedPrefix", "PoolPrefix", "RetiredCommitteesPrefix", "SupplyPrefix", "UnstakingPrefix", "ValidatorPrefix"] ∧ fsm.skipped = ["KeyForParams"] := by decide

theorem indexer_emitted : indexer.emitted = ["blockHashKey", "blockHeightKey", "checkpointKey", "checkpointsCommitteeKey", "doubleSignerHeightKey", "eventAddressKey", "eventBlockHeightKey", "eventChainIdKey", "eventHeightAndIndexKey", "eventHeightKey", "qcHeightKey", "stateChangeVersionPrefix", "txHashKey", "txHeightAndIndexKey", "txHeightKey", "txRecipientKey", "txSenderKey"] ∧ indexer.skipped = [] := by decide

/-- distinct key families have distinct one-byte family prefixes -/
theorem fsm_prefixes_nodup : (fsm.prefixTable.map (·.2)).Nodup := by decide
theorem indexer_prefixes_nodup : (indexer.prefixTable.map (·.2)).Nodup := by decide
theorem fsm_prefixes_single_byte : ∀ p ∈ fsm.prefixTable, p.2.length = 1 := by decide
theorem indexer_prefixes_single_byte : ∀ p ∈ indexer.prefixTable, p.2.length = 1 := by decide

/-! ## every FSM key, as data -/

inductive FsmKey
  | accountPrefix | poolPrefix | supplyPrefix | validatorPrefix | nonSignerPrefix | lastProposersPrefix
  | committeesDataPrefix | retiredCommitteesPrefix
  | unstakingPrefix (h : UInt64) | pausedPrefix (h : UInt64) | committeePrefix (id : UInt64)
  | delegatePrefix (id : UInt64) | orderBookPrefix (id : UInt64)
  | pool (n : UInt64) | nonSigner (a : Bytes) | order (c : UInt64) (id : Bytes)
  | unstaking (h : UInt64) (a : Bytes) | paused (h : UInt64) (a : Bytes)
  | committee (c : UInt64) (a : Bytes) (stake : UInt64) | delegate (c : UInt64) (a : Bytes) (stake : UInt64)
  | retiredCommittee (c : UInt64) | account (a : Bytes) | validator (a : Bytes)
  | lockedBatch (c : UInt64) | nextBatch (c : UInt64)

/-- the real encoding: the generated builder for each constructor -/
def FsmKey.encode : FsmKey → Bytes
  | .accountPrefix => fsm.AccountPrefix | .poolPrefix => fsm.PoolPrefix | .supplyPrefix => fsm.SupplyPrefix
  | .validatorPrefix => fsm.ValidatorPrefix | .nonSignerPrefix => fsm.NonSignerPrefix
  | .lastProposersPrefix => fsm.LastProposersPrefix | .committeesDataPrefix => fsm.CommitteesDataPrefix
  | .retiredCommitteesPrefix => fsm.RetiredCommitteesPrefix
  | .unstakingPrefix h => fsm.UnstakingPrefix h | .pausedPrefix h => fsm.PausedPrefix h
  | .committeePrefix i => fsm.CommitteePrefix i | .delegatePrefix i => fsm.DelegatePrefix i
  | .orderBookPrefix i => fsm.OrderBookPrefix i
  | .pool n => fsm.KeyForPool n | .nonSigner a => fsm.KeyForNonSigner a | .order c i => fsm.KeyForOrder c i
  | .unstaking h a => fsm.KeyForUnstaking h a | .paused h a => fsm.KeyForPaused h a
  | .committee c a s => fsm.KeyForCommittee c a s | .delegate c a s => fsm.KeyForDelegate c a s
  | .retiredCommittee c => fsm.KeyForRetiredCommittee c | .account a => fsm.KeyForAccount a
  | .validator a => fsm.KeyForValidator a | .lockedBatch c => fsm.KeyForLockedBatch c
  | .nextBatch c => fsm.KeyForNextBatch c

/-- the segment list each key is meant to denote -/
def FsmKey.segs : FsmKey → List Bytes
  | .accountPrefix => [[1]] | .poolPrefix => [[2]] | .supplyPrefix => [[10]] | .validatorPrefix => [[3]]
  | .nonSignerPrefix => [[8]] | .lastProposersPrefix => [[9]] | .committeesDataPrefix => [[12]]
  | .retiredCommitteesPrefix => [[14]]
  | .unstakingPrefix h => [[5], formatUint64 h] | .pausedPrefix h => [[6], formatUint64 h]
  | .committeePrefix i => [[4], formatUint64 i] | .delegatePrefix i => [[11], formatUint64 i]
  | .orderBookPrefix i => [[13], formatUint64 i]
  | .pool n => [[2], formatUint64 n] | .nonSigner a => [[8], a] | .order c i => [[13], formatUint64 c, i]
  | .unstaking h a => [[5], formatUint64 h, a] | .paused h a => [[6], formatUint64 h, a]
  | .committee c a s => [[4], formatUint64 c, formatUint64 s, a]
  | .delegate c a s => [[11], formatUint64 c, formatUint64 s, a]
  | .retiredCommittee c => [[14], formatUint64 c] | .account a => [[1], a] | .validator a => [[3], a]
  | .lockedBatch c => [[15], [1], formatUint64 c] | .nextBatch c => [[15], [2], formatUint64 c]

/-- caller-supplied components fit the one-byte length prefix -/
def FsmKey.WF : FsmKey → Prop
  | .nonSigner a | .account a | .validator a | .order _ a | .unstaking _ a | .paused _ a
  | .committee _ a _ | .delegate _ a _ => a.length ≤ 255
  | _ => True

theorem FsmKey.encode_eq (k : FsmKey) : k.encode = joinLenPrefix k.segs := by
  cases k <;> simp [FsmKey.encode, FsmKey.segs, fsm.AccountPrefix, fsm.PoolPrefix, fsm.SupplyPrefix,
    fsm.ValidatorPrefix, fsm.NonSignerPrefix, fsm.LastProposersPrefix, fsm.CommitteesDataPrefix,
    fsm.RetiredCommitteesPrefix, fsm.UnstakingPrefix, fsm.PausedPrefix, fsm.CommitteePrefix,
    fsm.DelegatePrefix, fsm.OrderBookPrefix, fsm.KeyForPool, fsm.KeyForNonSigner, fsm.KeyForOrder,
    fsm.KeyForUnstaking, fsm.KeyForPaused, fsm.KeyForCommittee, fsm.KeyForDelegate,
    fsm.KeyForRetiredCommittee, fsm.KeyForAccount, fsm.KeyForValidator, fsm.KeyForLockedBatch,
    fsm.KeyForNextBatch, fsm.accountPrefix, fsm.poolPrefix, fsm.supplyPrefix, fsm.validatorPrefix,
    fsm.nonSignerPrefix, fsm.lastProposersPrefix, fsm.committeesDataPrefix, fsm.retiredCommitteePrefix,
    fsm.unstakePrefix, fsm.pausedPrefix, fsm.committeePrefix, fsm.delegatePrefix, fsm.orderBookPrefix,
    fsm.dexPrefix, fsm.lockedBatchSegment, fsm.nextBatchSement, joinLenPrefix]

theorem FsmKey.segsOK (k : FsmKey) (h : k.WF) : SegsOK k.segs := by
  unfold SegsOK
  cases k <;> simp_all [FsmKey.segs, FsmKey.WF, formatUint64_length]

/-- **No collision**: two well-formed FSM keys with equal bytes denote the same segment list. -/
theorem FsmKey.encode_injective (k₁ k₂ : FsmKey) (h₁ : k₁.WF) (h₂ : k₂.WF)
    (h : k₁.encode = k₂.encode) : k₁.segs = k₂.segs := by
  rw [encode_eq, encode_eq] at h
  exact join_injective _ _ (segsOK _ h₁) (segsOK _ h₂) h

/-- **Prefix ranges**: if the bytes of `k₁` are a byte-prefix of the bytes of `k₂` (i.e. `k₂` is
returned by a prefix scan over `k₁`), then `k₁`'s segments are a leading sub-list of `k₂`'s: a scan
never picks up a key of another family or of another id/height/chain under the same family. -/
theorem FsmKey.prefix_range (k₁ k₂ : FsmKey) (h₁ : k₁.WF) (h₂ : k₂.WF)
    (h : k₁.encode <+: k₂.encode) : k₁.segs <+: k₂.segs := by
  rw [encode_eq, encode_eq] at h
  exact join_prefix _ _ (segsOK _ h₁) (segsOK _ h₂) h

/-- the segment list determines the components (spelled out for the families consensus relies on) -/
theorem committee_components (c c' s s' : UInt64) (a a' : Bytes)
    (ha : a.length ≤ 255) (ha' : a'.length ≤ 255)
    (h : fsm.KeyForCommittee c a s = fsm.KeyForCommittee c' a' s') : c = c' ∧ a = a' ∧ s = s' := by
  have := FsmKey.encode_injective (.committee c a s) (.committee c' a' s') ha ha' h
  simp only [FsmKey.segs, List.cons.injEq, and_true, true_and] at this
  exact ⟨formatUint64_injective _ _ this.1, this.2.2, formatUint64_injective _ _ this.2.1⟩

theorem unstaking_components (h h' : UInt64) (a a' : Bytes) (ha : a.length ≤ 255) (ha' : a'.length ≤ 255)
    (e : fsm.KeyForUnstaking h a = fsm.KeyForUnstaking h' a') : h = h' ∧ a = a' := by
  have := FsmKey.encode_injective (.unstaking h a) (.unstaking h' a') ha ha' e
  simp only [FsmKey.segs, List.cons.injEq, and_true, true_and] at this
  exact ⟨formatUint64_injective _ _ this.1, this.2⟩

theorem account_validator_disjoint (a b : Bytes) (ha : a.length ≤ 255) (hb : b.length ≤ 255) :
    fsm.KeyForAccount a ≠ fsm.KeyForValidator b := by
  intro e
  have := FsmKey.encode_injective (.account a) (.validator b) ha hb e
  simp [FsmKey.segs] at this

/-- a committee scan for chain `c` never returns a member of chain `c'` -/
theorem committee_scan_exact (c c' s : UInt64) (a : Bytes) (ha : a.length ≤ 255)
    (h : fsm.CommitteePrefix c <+: fsm.KeyForCommittee c' a s) : c = c' := by
  have := FsmKey.prefix_range (.committeePrefix c) (.committee c' a s) trivial ha h
  simp only [FsmKey.segs, List.cons_prefix_cons, true_and] at this
  exact formatUint64_injective _ _ this.1

/-! ## non-vacuity and the boundary the hypotheses exclude -/

example : (FsmKey.committee 1 [0xAA, 0xBB] 7).WF := by simp [FsmKey.WF]

/-- what `JoinLenPrefix` does *not* give: a 256-byte segment's length byte wraps to 0, so the
hypothesis `length ≤ 255` is necessary (witness: collision of two different segment lists). -/
theorem join_collides_at_256 :
    joinLenPrefix [List.replicate 256 (0 : UInt8)] = joinLenPrefix (List.replicate 257 []) := by
  decide +kernel

/-!
# C19 (b) — sign bytes and identity hashes: different meaning, different bytes

Every sign-bytes function of the code is `lib.Marshal ∘ project` (`Model/SignBytes.lean`,
`Model/Proto.lean`): deterministic marshalling of a projection of the item. `lib.Marshal` is injective
on well-formed contents (`Proto.canon_injective`, `SignBytes.canonQc_inj`, `canonMsg_inj`: consequences
of the wire round trip `parse (encFields fs) = some fs`), so two items share sign bytes only if their
projections are equal. What each projection keeps is regenerated from the Go source and pinned below.
Identity hashes are `H ∘ lib.Marshal`; `H` (SHA-256) is idealised as collision-free, nothing is proved
about it.

`WF` hypotheses: integers fit 64 bits, strings are valid UTF-8, byte strings have a length that fits a
varint (`Small`, i.e. < 2^64 — every byte string that exists). Sub-messages the sign-bytes functions
never open (`CertificateResult`, `AggregateSignature`, `VDF`) are carried as their canonical bytes.
-/
open Canopy.Proto Canopy.SignBytes

/-! ## what the sign-bytes functions keep (facts from `lib/certificate.go`, `bft/msg.go`, `lib/tx.go`) -/

theorem qc_signbytes_facts :
    Gen.Proto.qcElectionVoteFields = [("Header", "x.Header"), ("ProposerKey", "x.ProposerKey")] ∧
    Gen.Proto.qcStrippedFields = ["Results", "Block", "Signature"] := by decide

/-- the literals `bft.Message.SignBytes` marshals: leader message; its certificate; the vote; the
pacemaker message and its certificate -/
theorem msg_signbytes_facts : Gen.Proto.msgSignBytesLiterals =
    [("Message", [("Header", "x.Header"), ("Vrf", "x.Vrf"), ("HighQc", "x.HighQc"), ("LastDoubleSignEvidence", "x.LastDoubleSignEvidence")]),
     ("QC", [("Header", "x.Qc.Header"), ("BlockHash", "x.Qc.BlockHash"), ("ResultsHash", "x.Qc.ResultsHash"), ("ProposerKey", "x.Qc.ProposerKey"), ("Signature", "x.Qc.Signature")]),
     ("QC", [("Header", "x.Qc.Header"), ("BlockHash", "x.Qc.BlockHash"), ("ResultsHash", "x.Qc.ResultsHash"), ("ProposerKey", "x.Qc.ProposerKey")]),
     ("Message", [("Qc", "<literal>")]),
     ("QC", [("Header", "x.Qc.Header")])] := by decide +kernel

theorem msg_kind_facts :
    Gen.Proto.src_IsProposerMessage = "h := x.Header; if h == nil { return false }; return h.Phase == Election || h.Phase == Propose || h.Phase == Precommit || h.Phase == Commit" ∧
    Gen.Proto.src_IsReplicaMessage = "if x.Qc == nil || x.Qc.Header == nil || x.Header != nil { return false }; h := x.Qc.Header; return h.Phase == ElectionVote || h.Phase == ProposeVote || h.Phase == PrecommitVote" ∧
    Gen.Proto.src_IsPacemakerMessage = "if x.Qc == nil || x.Qc.Header == nil { return false }; return x.Qc.Header.Phase == RoundInterrupt" := by
  decide +kernel

/-- field numbers of the modelled schemas and the values of `Phase` -/
theorem signbytes_schemas :
    (Gen.Proto.schema "View").map (fun f => (f.1, f.2.1)) =
      [(1, "network_id"), (2, "chain_id"), (3, "height"), (4, "root_height"), (5, "round"), (6, "phase")] ∧
    (Gen.Proto.schema "QuorumCertificate").map (fun f => (f.1, f.2.1)) =
      [(1, "header"), (2, "results"), (3, "results_hash"), (4, "block"), (5, "block_hash"), (6, "proposer_key"), (7, "signature")] ∧
    (Gen.Proto.schema "DoubleSignEvidence").map (fun f => (f.1, f.2.1)) = [(1, "vote_a"), (2, "vote_b")] ∧
    (Gen.Proto.schema "Message").map (fun f => (f.1, f.2.1, f.2.2.2)) =
      [(1, "header", ""), (2, "vrf", ""), (3, "qc", ""), (4, "high_qc", ""), (5, "last_double_sign_evidence", "repeated"),
       (6, "vdf", ""), (7, "signature", ""), (8, "timestamp", ""), (9, "rcBuildHeight", "")] ∧
    (Gen.Proto.enumValues.find? (·.1 == "Phase")).map (·.2) =
      some [("UNKNOWN", 0), ("ELECTION", phElection), ("ELECTION_VOTE", phElectionVote), ("PROPOSE", phPropose),
            ("PROPOSE_VOTE", phProposeVote), ("PRECOMMIT", phPrecommit), ("PRECOMMIT_VOTE", phPrecommitVote),
            ("COMMIT", phCommit), ("COMMIT_PROCESS", 8), ("ROUND_INTERRUPT", phRoundInterrupt), ("PACEMAKER", 10)] := by
  decide

/-! ## transactions -/

/-- two transactions with equal sign bytes agree on everything but the signature -/
theorem tx_signbytes_injective (t₁ t₂ : TxContent) (h₁ : t₁.unsigned.WF) (h₂ : t₂.unsigned.WF)
    (h : signBytes t₁ = signBytes t₂) : t₁.unsigned = t₂.unsigned :=
  Proto.canon_injective _ _ h₁ h₂ h

/-- two well-formed transactions that differ have different canonical bytes (hence, `H` being
collision-free, different `GetHash` identities) -/
theorem tx_identity_injective (t₁ t₂ : TxContent) (h₁ : t₁.WF) (h₂ : t₂.WF) (h : t₁ ≠ t₂) : canon t₁ ≠ canon t₂ :=
  fun e => h (Proto.canon_injective _ _ h₁ h₂ e)

/-! ## certificates and votes -/

/-- equal certificate sign bytes ⇒ equal view (height, round, phase, …) and proposer key -/
theorem qc_signbytes_header (q₁ q₂ : QcC) (h₁ : q₁.WF) (h₂ : q₂.WF) (h : qcSignBytes q₁ = qcSignBytes q₂) :
    q₁.header = q₂.header ∧ q₁.proposerKey = q₂.proposerKey := by
  have e := qcSignBytes_inj q₁ q₂ h₁ h₂ h
  have eh := congrArg QcC.header e
  have ep := congrArg QcC.proposerKey e
  rw [signProjection_header, signProjection_header] at eh
  rw [signProjection_pk, signProjection_pk] at ep
  exact ⟨eh, ep⟩

/-- … and, outside the ELECTION_VOTE case, equal block hash and results hash: two votes for
different payloads in one view never share sign bytes (this is the test `bytes.Equal(VoteA.SignBytes(),
VoteB.SignBytes())` of the double-sign evidence check) -/
theorem qc_signbytes_payload (q₁ q₂ : QcC) (h₁ : q₁.WF) (h₂ : q₂.WF) (hv : q₁.isElectionVote = false)
    (h : qcSignBytes q₁ = qcSignBytes q₂) : q₁.blockHash = q₂.blockHash ∧ q₁.resultsHash = q₂.resultsHash := by
  have e := qcSignBytes_inj q₁ q₂ h₁ h₂ h
  have hh := (qc_signbytes_header q₁ q₂ h₁ h₂ h).1
  have hv₂ : q₂.isElectionVote = false := by rw [← isElectionVote_of_header q₁ q₂ hh]; exact hv
  simp only [QcC.signProjection, hv, hv₂, Bool.false_eq_true, if_false, QcC.mk.injEq] at e
  exact ⟨e.2.2.2.2.1, e.2.2.1⟩

/-- the ELECTION_VOTE special case is disjoint from the general case: the phase is inside the bytes -/
theorem election_vote_disjoint (q₁ q₂ : QcC) (h₁ : q₁.WF) (h₂ : q₂.WF) (hv₁ : q₁.isElectionVote = true)
    (hv₂ : q₂.isElectionVote = false) : qcSignBytes q₁ ≠ qcSignBytes q₂ := by
  intro h
  have hh := (qc_signbytes_header q₁ q₂ h₁ h₂ h).1
  rw [isElectionVote_of_header q₁ q₂ hh, hv₂] at hv₁
  exact absurd hv₁ (by decide)

/-- non-vacuity, and what the special case deliberately drops: two ELECTION_VOTE certificates for
the same view and candidate share sign bytes whatever their block / results hashes -/
example :
    let v : ViewC := ⟨1, 1, 10, 5, 0, phElectionVote⟩
    qcSignBytes ⟨some v, none, [1], [], [2], [7], none⟩ = qcSignBytes ⟨some v, none, [3], [], [4], [7], none⟩ ∧
    qcSignBytes ⟨some { v with phase := phProposeVote }, none, [1], [], [2], [7], none⟩ ≠
      qcSignBytes ⟨some { v with phase := phProposeVote }, none, [3], [], [4], [7], none⟩ := by decide

/-! ## consensus messages -/

/-- two leader messages with equal sign bytes agree on header, VRF, the certificate's header / block
hash / results hash / proposer key / aggregate signature, the high-QC and the evidence -/
theorem proposer_signbytes_injective (m₁ m₂ : MsgC) (h₁ : m₁.WF) (h₂ : m₂.WF) (p₁ : m₁.isProposer = true)
    (p₂ : m₂.isProposer = true) (h : msgSignBytes m₁ = msgSignBytes m₂) :
    m₁.proposerProjection = m₂.proposerProjection := proposer_inj m₁ m₂ h₁ h₂ p₁ p₂ h

/-- two votes with equal sign bytes are votes for the same view and proposer, and (except election
votes) the same block and results -/
theorem vote_signbytes_injective (m₁ m₂ : MsgC) (q₁ q₂ : QcC) (h₁ : m₁.WF) (h₂ : m₂.WF)
    (n₁ : m₁.isProposer = false) (n₂ : m₂.isProposer = false) (r₁ : m₁.isReplica = true) (r₂ : m₂.isReplica = true)
    (hq₁ : m₁.qc = some q₁) (hq₂ : m₂.qc = some q₂) (h : msgSignBytes m₁ = msgSignBytes m₂) :
    q₁.header = q₂.header ∧ q₁.proposerKey = q₂.proposerKey ∧
      (q₁.isElectionVote = false → q₁.blockHash = q₂.blockHash ∧ q₁.resultsHash = q₂.resultsHash) := by
  rw [msgSignBytes_replica m₁ q₁ n₁ r₁ hq₁, msgSignBytes_replica m₂ q₂ n₂ r₂ hq₂] at h
  have w₁ := voteProjection_wf q₁ (h₁.qc q₁ hq₁).1
  have w₂ := voteProjection_wf q₂ (h₂.qc q₂ hq₂).1
  obtain ⟨eh, ep⟩ := qc_signbytes_header (voteProjection q₁) (voteProjection q₂) w₁ w₂ h
  refine ⟨eh, ep, fun hv => ?_⟩
  exact qc_signbytes_payload (voteProjection q₁) (voteProjection q₂) w₁ w₂
    (by simpa [QcC.isElectionVote, voteProjection] using hv) h

/-- messages of different kinds never share sign bytes -/
theorem msg_kinds_disjoint (m₁ m₂ : MsgC) (h₁ : m₁.WF) (h₂ : m₂.WF) (p₁ : m₁.isProposer = true)
    (n₂ : m₂.isProposer = false) (k : m₂.isReplica = true ∨ (m₂.isReplica = false ∧ m₂.isPacemaker = true)) :
    msgSignBytes m₁ ≠ msgSignBytes m₂ := by
  rcases k with r | ⟨r, k⟩
  · exact proposer_replica_disjoint m₁ m₂ h₁ h₂ p₁ n₂ r
  · exact proposer_pacemaker_disjoint m₁ m₂ h₁ h₂ p₁ n₂ r k

/-- **Observation (recorded, not a theorem about safety)**: `vdf`, `timestamp` and `rcBuildHeight` of a
leader message are outside its sign bytes — two proposals that differ only there share sign bytes.
`rcBuildHeight` is read by `HandleProposal`/`ValidateProposal`, `timestamp` by the block gossip. -/
theorem proposer_fields_outside_signbytes :
    let v : ViewC := ⟨1, 1, 10, 5, 0, phPropose⟩
    let m : MsgC := { MsgC.empty with header := some v, timestamp := 1, rcBuildHeight := 5 }
    msgSignBytes m = msgSignBytes { m with timestamp := 2, rcBuildHeight := 6, vdf := some [1, 2, 3] } := by decide

/-! ## RLP-backed transactions: one signed Ethereum payload, one wrapper -/

/-- `VerifyRLPBytes` ties the submitted wrapper to the raw Ethereum transaction by comparing
`GetHash()` of the transaction rebuilt from the raw RLP with `GetHash()` of the submitted one — the
digest of the WHOLE canonical transaction, Signature container (claimed public key, raw RLP) included;
`GetSignBytes()` would leave the claimed key out (facts regenerated from fsm/ethereum.go) -/
theorem rlp_binding_src : Gen.Proto.rlpBindingDigests = ["compare.GetHash", "tx.GetHash"] ∧
    Gen.Proto.src_GetHash = "protoBytes, err := Marshal(x); if err != nil { return nil, err }; return crypto.Hash(protoBytes), nil" := by
  decide +kernel

/-- the binding is injective in EVERY wrapper field: two well-formed wrappers whose canonical bytes
both equal the bytes of the wrapper rebuilt from one raw Ethereum transaction are the same wrapper —
same claimed public key, same payload, same heights, fee, memo, ids, nonce (`H` collision-free) -/
theorem rlp_wrapper_unique (rebuilt : Bytes) (t₁ t₂ : TxContent) (h₁ : t₁.WF) (h₂ : t₂.WF)
    (b₁ : canon t₁ = rebuilt) (b₂ : canon t₂ = rebuilt) : t₁ = t₂ :=
  Proto.canon_injective t₁ t₂ h₁ h₂ (b₁.trans b₂.symm)

/-- what would be lost by comparing sign bytes instead: they are blind to the Signature container, so
wrappers naming different keys would both be bound -/
theorem signbytes_blind_to_claimed_key (t : TxContent) (g₁ g₂ : SigC) :
    signBytes { t with signature := some g₁ } = signBytes { t with signature := some g₂ } := by
  simp [signBytes, TxContent.unsigned]

/-! ## Merkle roots (transaction root, validator root)

`Merkle.root` is the reference semantics of `crypto.MerkleTree` (hash the items, pair up level by level,
an odd last node with itself); the driver recomputes the real roots with it for every length class. -/

/-- the code the model transcribes (facts regenerated from lib/crypto/hash.go): the padded linear-array
construction, its three cases, and the next power of two by bit smearing over all of 1, 2, 4, 8, 16 -/
theorem merkle_src :
    Gen.Proto.src_crypto_nextPowerOfTwo = "v--; v |= v >> 1; v |= v >> 2; v |= v >> 4; v |= v >> 8; v |= v >> 16; v++; return v" ∧
    Gen.Proto.src_crypto_MerkleTree = "if len(items) == 0 { return []byte{}, [][]byte{}, nil }; offset := nextPowerOfTwo(len(items)); size := offset * 2 - 1; store = make([][]byte, size); for i, item := range items { store[i] = Hash(item) }; for i := 0; i < size - 1; i += 2 { switch  { default: store[offset] = Hash(concat(store[i], store[i + 1])); case store[i] == nil: store[offset] = nil; case store[i + 1] == nil: store[offset] = Hash(concat(store[i], store[i])) }; offset++ }; return store[size - 1], store, nil" ∧
    Gen.Proto.src_crypto_concat = "out := make([]byte, len(a) + len(b)); copy(out, a); copy(out[len(a):], b); return out" := by
  decide +kernel

/-- **two item lists of EQUAL length with the same Merkle root are equal**, for an injective leaf hash
and a node hash that is injective in the pair (the collision-free idealisation of SHA-256 and of the
unframed concatenation of two 32-byte hashes, as explicit hypotheses) -/
theorem merkle_root_injective_same_length {α β : Type} (leaf : β → α) (node : α → α → α)
    (hleaf : ∀ x y, leaf x = leaf y → x = y) (hnode : Merkle.NodeInj node)
    (l₁ l₂ : List β) (hl : l₁.length = l₂.length) (h : Merkle.root leaf node l₁ = Merkle.root leaf node l₂) :
    l₁ = l₂ := by
  cases l₁ with
  | nil => cases l₂ with
    | nil => rfl
    | cons _ _ => simp at hl
  | cons a r =>
    unfold Merkle.root at h
    rw [← hl] at h
    have hm := Merkle.rootAux_inj node hnode _ ((a :: r).map leaf) (l₂.map leaf)
      (by simpa using hl) (by simp) (by simp) h
    exact Merkle.map_inj leaf hleaf _ _ hm

/-- the root of a non-empty list exists (is never the empty placeholder) -/
theorem merkle_root_nonempty {α β : Type} (leaf : β → α) (node : α → α → α) (l : List β) (h : l ≠ []) :
    (Merkle.root leaf node l).isSome = true :=
  Merkle.rootAux_isSome node _ _ (by simp) (by simpa using h)

/-- remark (true of the real code too, not a failure): lists of DIFFERENT length can share a root —
an odd last node is paired with itself, so `[a, b, c]` and `[a, b, c, c]` collide. `BlockHeader.NumTxs`
(inside the block hash) and the replay filter (no transaction twice) keep it from mattering. -/
example {α β : Type} (leaf : β → α) (node : α → α → α) (a b c : β) :
    Merkle.root leaf node [a, b, c] = Merkle.root leaf node [a, b, c, c] := rfl

/-!
# C19 (c) — decoding untrusted bytes

The modelled decoders (`Proto.preflight` = `lib.preflightProtoBytes`, `Proto.parse`, `Proto.decodeTx` =
`lib.Unmarshal` for the critical `Transaction`, `decodeLenPrefixed`) are total functions defined by
structural recursion: Lean's termination checker is the proof that *the model* neither hangs nor
crashes on any byte string. That the real decoders and the handlers behind them do not panic or hang
is sampled by the correspondence run (panic trap, per-case timeout), not proved.
-/

/-- an element larger than `protoMaxFieldBytes` is refused by the pre-flight scan wherever it occurs
after well-formed fields -/
theorem oversize_element_rejected (fs : List Field) (h : ∀ f ∈ fs, f.PreOK) (num : Nat) (b rest : Bytes)
    (h1 : 1 ≤ num) (h2 : num ≤ maxFieldNum) (hb : protoMaxFieldBytes < b.length) (hs : b.length < 2 ^ 64) :
    decodeTx (encFields fs ++ (encField ⟨num, .len b⟩ ++ rest)) = none := by
  have := preflight_rejects_oversize fs h num b rest h1 h2 hb hs
  simp [decodeTx, this]

/-- a message larger than `protoMaxMessageBytes` is refused -/
theorem oversize_message_rejected (raw : Bytes) (h : protoMaxMessageBytes < raw.length) : decodeTx raw = none := by
  simp [decodeTx, h]

/-- unknown fields are reported by the decoder and refused for the critical message -/
theorem unknown_fields_rejected (raw : Bytes) (t : TxContent) (h : decodeLoose raw = some (t, true)) :
    decodeTx raw = none := by
  unfold decodeTx
  split
  · rfl
  · split
    · rfl
    · simp [h]

/-- whatever is accepted passed the scan, fits the size cap and carries no unknown field -/
theorem accepted_bytes_are_clean (raw : Bytes) (t : TxContent) (h : decodeTx raw = some t) :
    decodeLoose raw = some (t, false) ∧ preflight raw = true ∧ raw.length ≤ protoMaxMessageBytes :=
  decodeTx_sound raw t h

/-- a field number the schema does not know (here: any number above 10) is reported as unknown,
at the top level of a transaction -/
theorem unknown_field_reported (s : St TxContent) (f : Field) (h : 10 < f.num) : applyTx s f = some (s.1, true) := by
  obtain ⟨num, val⟩ := f
  simp only at h
  unfold applyTx
  split <;> first | rfl | (simp only at *; omega)

/-- the ELECTION branch of `CheckProposerMessage` applies `checkSignatureBasic` to the VRF (and to
nothing else) before it reads `x.Vrf.PublicKey`, and `checkSignatureBasic` demands presence and the
48 / 96 element sizes: `MsgC.electionWellFormed` is that test (facts regenerated from bft/msg.go) -/
theorem election_vrf_check_src :
    Gen.Proto.electionBasicChecks = ["x.Vrf"] ∧
    Gen.Proto.src_electionBranch = "if x.Header.Height != p.height { return false, lib.ErrWrongCertHeight(x.Header.Height, p.height) }; if err = checkSignatureBasic(x.Vrf); err != nil { return false, err }; if !bytes.Equal(x.Signature.PublicKey, x.Vrf.PublicKey) { return false, ErrMismatchPublicKeys() }; return" ∧
    Gen.Proto.src_checkSignatureBasic = "if signature == nil || len(signature.PublicKey) == 0 || len(signature.Signature) == 0 { return ErrPartialSignatureEmpty() }; if len(signature.PublicKey) != crypto.BLS12381PubKeySize { return ErrInvalidPublicKey() }; if len(signature.Signature) != crypto.BLS12381SignatureSize { return ErrInvalidSignatureLength() }; return nil" ∧
    Gen.Proto.BLS12381PubKeySize = 48 := by
  decide +kernel

/-- an ELECTION message that passes the test carries a VRF (so the dereference is defined) of a
48-byte key equal to the sender's and a 96-byte output: oversize or missing elements are refused -/
theorem election_wellformed_has_vrf (m : MsgC) (k : Bytes) (h : m.electionWellFormed k = true) :
    ∃ g, m.vrf = some g ∧ g.publicKey = k ∧ g.publicKey.length = 48 ∧ g.signature.length = 96 := by
  unfold MsgC.electionWellFormed sigBasicOk at h
  cases hv : m.vrf with
  | none => simp [hv] at h
  | some g =>
    simp only [hv, Bool.and_eq_true, beq_iff_eq] at h
    exact ⟨g, rfl, h.2, h.1.1, h.1.2⟩

/-! ### unknown fields at every nesting position of the critical messages

`ProtoCrit.checkCritical` is the generic, schema-directed model of `lib.Unmarshal` for `Block`,
`Transaction`, `QuorumCertificate` over the regenerated schemas; the driver compares it with the real
decoder on a reflection-generated corpus (unknown field / wrong wire type / group injected at every
message position, `protoMaxListLen` ± at every list position). -/

/-- the walker reaches the elements of repeated message fields (the list-length test does not return
before the recursion, the list case recurses) and uses the modelled list bound -/
theorem walker_src : Gen.Proto.walkerInspectsListElements = true ∧
    Gen.Proto.protoMaxListLen = ProtoCrit.protoMaxListLen ∧ Gen.Proto.protoMaxRecursion = 32 := by decide

/-- the schemas reachable from the three critical messages: the set is closed under message-typed
fields and contains no `map` / `oneof` field (the constructs the generic model does not cover) -/
def criticalSchemas : List String :=
  ["Block", "BlockHeader", "VDF", "QuorumCertificate", "View", "CertificateResult", "AggregateSignature",
   "RewardRecipients", "PaymentPercents", "SlashRecipients", "DoubleSigner", "Orders", "LockOrder", "Checkpoint",
   "DexBatch", "DexLimitOrder", "DexLiquidityDeposit", "DexLiquidityWithdraw", "PoolPoints", "Transaction", "Signature"]

theorem critical_schemas_closed :
    criticalSchemas.all (fun n => (Gen.Proto.schema n).all fun d =>
      d.2.2.2 != "map" && d.2.2.2 != "oneof" &&
      (match ProtoCrit.kindOf Gen.Proto.messages Gen.Proto.enums d.2.2.1 with
       | .msg t => t == "google.protobuf.Any" || criticalSchemas.contains t
       | .unsupported => false
       | _ => true)) = true := by decide +kernel

/-- an unknown field inside an ELEMENT of a repeated message field
(`results.reward_recipients.payment_percents[0]`) refuses the certificate; so does an unknown field
in an element of a list inside a list element position, a group, and a declared number with another
wire type; the same bytes without the extra field are accepted -/
theorem unknown_in_list_element_rejected :
    let S := Gen.Proto.messages
    let E := Gen.Proto.enums
    ProtoCrit.checkCritical S E "QuorumCertificate" [0x12, 0x07, 0x0a, 0x05, 0x0a, 0x03, 0x0a, 0x01, 0x01] = .ok ∧
    ProtoCrit.checkCritical S E "QuorumCertificate" [0x12, 0x0a, 0x0a, 0x08, 0x0a, 0x06, 0x0a, 0x01, 0x01, 0xc0, 0x3e, 0x01] = .walk ∧
    ProtoCrit.checkCritical S E "QuorumCertificate" [0x12, 0x0b, 0x0a, 0x09, 0x0a, 0x07, 0x0a, 0x01, 0x01, 0xbb, 0x3e, 0xbc, 0x3e] = .walk ∧
    ProtoCrit.checkCritical S E "QuorumCertificate" [0x12, 0x09, 0x0a, 0x07, 0x0a, 0x05, 0x0a, 0x01, 0x01, 0x08, 0x01] = .walk ∧
    ProtoCrit.checkCritical S E "QuorumCertificate" [0x12, 0x0a, 0x12, 0x08, 0x0a, 0x06, 0x0a, 0x01, 0x01, 0xc0, 0x3e, 0x01] = .walk := by
  decide +kernel

/-- a field number the schema does not declare is flagged at whatever level it occurs -/
theorem undeclared_number_flagged (S : ProtoCrit.Schemas) (E : List String) (rec : String → Bytes → Option ProtoCrit.Flags)
    (decls : List ProtoCrit.FieldDecl) (f : Field) (h : decls.find? (·.1 == f.num) = none) :
    ProtoCrit.checkField S E rec decls f = some (⟨true, false, false⟩, 0) := by
  simp [ProtoCrit.checkField, h]

/-- non-vacuity: the honest transaction with one unknown field appended is refused, a group wire type
is refused, a truncated varint is refused — and the untouched bytes are accepted -/
example : decodeTx [0x0a, 0x01, 0x61, 0x78, 0x01] = none ∧ decodeTx [0x0b] = none ∧ decodeTx [0x20, 0x80] = none ∧
    decodeTx [0x0a, 0x01, 0x61] ≠ none := by decide

end Canopy.C19
