import Canopy.Proof.Key
import Canopy.Gen.Keys
/-!
# C19 (a) — composite store keys never collide and never fall into each other's prefix range

The key builders are the *generated* translations of `fsm/key.go` and `store/indexer.go`
(`Canopy.Gen.fsm.*`, `Canopy.Gen.indexer.*`). `FsmKey`/`IdxKey` enumerate every builder; the theorems
say that the byte encoding determines the builder and all of its components, and that a byte-prefix
scan over an encoded prefix returns exactly the keys whose leading *segments* are that prefix.

Hypothesis carried explicitly (what the real `JoinLenPrefix` does not give for free): every
caller-supplied byte string has length ≤ 255 and is non-nil (`nil` is skipped by the Go code, lengths
≥ 256 are truncated to one byte). Addresses (20 bytes), hashes (32) and order ids (20) satisfy it; the
correspondence run exercises the boundary.
-/
namespace Canopy.C19
open Canopy Canopy.Gen

/-! ## structural facts the translation relies on -/

/-- the translator inlines `Indexer.key` as `JoinLenPrefix(prefix, param1, param2)` -/
theorem indexer_key_is_join : src_indexer_key = "return lib.JoinLenPrefix(prefix, param1, param2)" := by decide

/-- the FSM builder set is exactly the one `FsmKey` enumerates (a new builder must be added there) -/
theorem fsm_emitted : fsm.emitted = ["AccountPrefix", "CommitteePrefix", "CommitteesDataPrefix", "DelegatePrefix", "KeyForAccount", "KeyForCommittee", "KeyForDelegate", "KeyForLockedBatch", "KeyForNextBatch", "KeyForNonSigner", "KeyForOrder", "KeyForPaused", "KeyForPool", "KeyForRetiredCommittee", "KeyForUnstaking", "KeyForValidator", "LastProposersPrefix", "NonSignerPrefix", "OrderBookPrefix", "PausedPrefix", "PoolPrefix", "RetiredCommitteesPrefix", "SupplyPrefix", "UnstakingPrefix", "ValidatorPrefix"] ∧ fsm.skipped = ["KeyForParams"] := by decide

theorem indexer_emitted : indexer.emitted = ["blockHashKey", "blockHeightKey", "checkpointKey", "checkpointsCommitteeKey", "doubleSignerHeightKey", "eventAddressKey", "eventBlockHeightKey", "eventChainIdKey", "eventHeightAndIndexKey", "eventHeightKey", "qcHeightKey", "stateChangeVersionPrefix", "txHashKey", "txHeightAndIndexKey", "txHeightKey", "txRecipientKey", "txSenderKey"] ∧ indexer.skipped = [] := by decide

/-- distinct key families have distinct one-byte family prefixes -/
theorem fsm_prefixes_nodup : (fsm.prefixTable.map (·.2)).Nodup := by decide
theorem indexer_prefixes_nodup : (indexer.prefixTable.map (·.2)).Nodup := by decide
theorem fsm_prefixes_single_byte : ∀ p ∈ fsm.prefixTable, p.2.length = 1 := by decide
theorem indexer_prefixes_single_byte : ∀ p ∈ indexer.prefixTable, p.2.length = 1 := by decide

/-! ## every FSM key, as data -/

inductive FsmKey
  | accountPrefix | poolPrefix | supplyPrefix | validatorPrefix | nonSignerPrefix | lastProposersPrefix
  | committeesDataPrefix | retiredCommitteesPrefix
  | unstakingPrefix (h : UInt64) | pausedPrefix (h : UInt64) | committeePrefix (id : UInt64)
  | delegatePrefix (id : UInt64) | orderBookPrefix (id : UInt64)
  | pool (n : UInt64) | nonSigner (a : Bytes) | order (c : UInt64) (id : Bytes)
  | unstaking (h : UInt64) (a : Bytes) | paused (h : UInt64) (a : Bytes)
  | committee (c : UInt64) (a : Bytes) (stake : UInt64) | delegate (c : UInt64) (a : Bytes) (stake : UInt64)
  | retiredCommittee (c : UInt64) | account (a : Bytes) | validator (a : Bytes)
  | lockedBatch (c : UInt64) | nextBatch (c : UInt64)

/-- the real encoding: the generated builder for each constructor -/
def FsmKey.encode : FsmKey → Bytes
  | .accountPrefix => fsm.AccountPrefix | .poolPrefix => fsm.PoolPrefix | .supplyPrefix => fsm.SupplyPrefix
  | .validatorPrefix => fsm.ValidatorPrefix | .nonSignerPrefix => fsm.NonSignerPrefix
  | .lastProposersPrefix => fsm.LastProposersPrefix | .committeesDataPrefix => fsm.CommitteesDataPrefix
  | .retiredCommitteesPrefix => fsm.RetiredCommitteesPrefix
  | .unstakingPrefix h => fsm.UnstakingPrefix h | .pausedPrefix h => fsm.PausedPrefix h
  | .committeePrefix i => fsm.CommitteePrefix i | .delegatePrefix i => fsm.DelegatePrefix i
  | .orderBookPrefix i => fsm.OrderBookPrefix i
  | .pool n => fsm.KeyForPool n | .nonSigner a => fsm.KeyForNonSigner a | .order c i => fsm.KeyForOrder c i
  | .unstaking h a => fsm.KeyForUnstaking h a | .paused h a => fsm.KeyForPaused h a
  | .committee c a s => fsm.KeyForCommittee c a s | .delegate c a s => fsm.KeyForDelegate c a s
  | .retiredCommittee c => fsm.KeyForRetiredCommittee c | .account a => fsm.KeyForAccount a
  | .validator a => fsm.KeyForValidator a | .lockedBatch c => fsm.KeyForLockedBatch c
  | .nextBatch c => fsm.KeyForNextBatch c

/-- the segment list each key is meant to denote -/
def FsmKey.segs : FsmKey → List Bytes
  | .accountPrefix => [[1]] | .poolPrefix => [[2]] | .supplyPrefix => [[10]] | .validatorPrefix => [[3]]
  | .nonSignerPrefix => [[8]] | .lastProposersPrefix => [[9]] | .committeesDataPrefix => [[12]]
  | .retiredCommitteesPrefix => [[14]]
  | .unstakingPrefix h => [[5], formatUint64 h] | .pausedPrefix h => [[6], formatUint64 h]
  | .committeePrefix i => [[4], formatUint64 i] | .delegatePrefix i => [[11], formatUint64 i]
  | .orderBookPrefix i => [[13], formatUint64 i]
  | .pool n => [[2], formatUint64 n] | .nonSigner a => [[8], a] | .order c i => [[13], formatUint64 c, i]
  | .unstaking h a => [[5], formatUint64 h, a] | .paused h a => [[6], formatUint64 h, a]
  | .committee c a s => [[4], formatUint64 c, formatUint64 s, a]
  | .delegate c a s => [[11], formatUint64 c, formatUint64 s, a]
  | .retiredCommittee c => [[14], formatUint64 c] | .account a => [[1], a] | .validator a => [[3], a]
  | .lockedBatch c => [[15], [1], formatUint64 c] | .nextBatch c => [[15], [2], formatUint64 c]

/-- caller-supplied components fit the one-byte length prefix -/
def FsmKey.WF : FsmKey → Prop
  | .nonSigner a | .account a | .validator a | .order _ a | .unstaking _ a | .paused _ a
  | .committee _ a _ | .delegate _ a _ => a.length ≤ 255
  | _ => True

theorem FsmKey.encode_eq (k : FsmKey) : k.encode = joinLenPrefix k.segs := by
  cases k <;> simp [FsmKey.encode, FsmKey.segs, fsm.AccountPrefix, fsm.PoolPrefix, fsm.SupplyPrefix,
    fsm.ValidatorPrefix, fsm.NonSignerPrefix, fsm.LastProposersPrefix, fsm.CommitteesDataPrefix,
    fsm.RetiredCommitteesPrefix, fsm.UnstakingPrefix, fsm.PausedPrefix, fsm.CommitteePrefix,
    fsm.DelegatePrefix, fsm.OrderBookPrefix, fsm.KeyForPool, fsm.KeyForNonSigner, fsm.KeyForOrder,
    fsm.KeyForUnstaking, fsm.KeyForPaused, fsm.KeyForCommittee, fsm.KeyForDelegate,
    fsm.KeyForRetiredCommittee, fsm.KeyForAccount, fsm.KeyForValidator, fsm.KeyForLockedBatch,
    fsm.KeyForNextBatch, fsm.accountPrefix, fsm.poolPrefix, fsm.supplyPrefix, fsm.validatorPrefix,
    fsm.nonSignerPrefix, fsm.lastProposersPrefix, fsm.committeesDataPrefix, fsm.retiredCommitteePrefix,
    fsm.unstakePrefix, fsm.pausedPrefix, fsm.committeePrefix, fsm.delegatePrefix, fsm.orderBookPrefix,
    fsm.dexPrefix, fsm.lockedBatchSegment, fsm.nextBatchSement, joinLenPrefix]

theorem FsmKey.segsOK (k : FsmKey) (h : k.WF) : SegsOK k.segs := by
  unfold SegsOK
  cases k <;> simp_all [FsmKey.segs, FsmKey.WF, formatUint64_length]

/-- **No collision**: two well-formed FSM keys with equal bytes denote the same segment list. -/
theorem FsmKey.encode_injective (k₁ k₂ : FsmKey) (h₁ : k₁.WF) (h₂ : k₂.WF)
    (h : k₁.encode = k₂.encode) : k₁.segs = k₂.segs := by
  rw [encode_eq, encode_eq] at h
  exact join_injective _ _ (segsOK _ h₁) (segsOK _ h₂) h

/-- **Prefix ranges**: if the bytes of `k₁` are a byte-prefix of the bytes of `k₂` (i.e. `k₂` is
returned by a prefix scan over `k₁`), then `k₁`'s segments are a leading sub-list of `k₂`'s: a scan
never picks up a key of another family or of another id/height/chain under the same family. -/
theorem FsmKey.prefix_range (k₁ k₂ : FsmKey) (h₁ : k₁.WF) (h₂ : k₂.WF)
    (h : k₁.encode <+: k₂.encode) : k₁.segs <+: k₂.segs := by
  rw [encode_eq, encode_eq] at h
  exact join_prefix _ _ (segsOK _ h₁) (segsOK _ h₂) h

/-- the segment list determines the components (spelled out for the families consensus relies on) -/
theorem committee_components (c c' s s' : UInt64) (a a' : Bytes)
    (ha : a.length ≤ 255) (ha' : a'.length ≤ 255)
    (h : fsm.KeyForCommittee c a s = fsm.KeyForCommittee c' a' s') : c = c' ∧ a = a' ∧ s = s' := by
  have := FsmKey.encode_injective (.committee c a s) (.committee c' a' s') ha ha' h
  simp only [FsmKey.segs, List.cons.injEq, and_true, true_and] at this
  exact ⟨formatUint64_injective _ _ this.1, this.2.2, formatUint64_injective _ _ this.2.1⟩

theorem unstaking_components (h h' : UInt64) (a a' : Bytes) (ha : a.length ≤ 255) (ha' : a'.length ≤ 255)
    (e : fsm.KeyForUnstaking h a = fsm.KeyForUnstaking h' a') : h = h' ∧ a = a' := by
  have := FsmKey.encode_injective (.unstaking h a) (.unstaking h' a') ha ha' e
  simp only [FsmKey.segs, List.cons.injEq, and_true, true_and] at this
  exact ⟨formatUint64_injective _ _ this.1, this.2⟩

theorem account_validator_disjoint (a b : Bytes) (ha : a.length ≤ 255) (hb : b.length ≤ 255) :
    fsm.KeyForAccount a ≠ fsm.KeyForValidator b := by
  intro e
  have := FsmKey.encode_injective (.account a) (.validator b) ha hb e
  simp [FsmKey.segs] at this

/-- a committee scan for chain `c` never returns a member of chain `c'` -/
theorem committee_scan_exact (c c' s : UInt64) (a : Bytes) (ha : a.length ≤ 255)
    (h : fsm.CommitteePrefix c <+: fsm.KeyForCommittee c' a s) : c = c' := by
  have := FsmKey.prefix_range (.committeePrefix c) (.committee c' a s) trivial ha h
  simp only [FsmKey.segs, List.cons_prefix_cons, true_and] at this
  exact formatUint64_injective _ _ this.1

/-! ## non-vacuity and the boundary the hypotheses exclude -/

example : (FsmKey.committee 1 [0xAA, 0xBB] 7).WF := by simp [FsmKey.WF]

/-- what `JoinLenPrefix` does *not* give: a 256-byte segment's length byte wraps to 0, so the
hypothesis `length ≤ 255` is necessary (witness: collision of two different segment lists). -/
theorem join_collides_at_256 :
    joinLenPrefix [List.replicate 256 (0 : UInt8)] = joinLenPrefix (List.replicate 257 []) := by
  decide +kernel

end Canopy.C19
