import Canopy.Proof.Auth
import Canopy.Gen.Auth
/-!
# C05 — authorization

Model: `Canopy.Auth` (`Model/Auth.lean`): `CheckTx` → `GetAuthorizedSignersFor` → `CheckSignature` →
`ApplyTransaction` (fee from the verified signer, the handler of each of the 16 message kinds) over a
read-only state, returning the verified signer and the list of `Change`s the transaction makes.
Signatures are symbolic (`Env`): a key verifies exactly the (content, signature) pairs its holder
produced; a BLS multisig key verifies exactly the aggregates formed over its enabled members, subject
to `threshold = 0 ∨ enabled ≥ threshold` as in `BLS12381MultiPublicKey.VerifyBytes`; an
Ethereum-wrapped transaction verifies exactly when the raw Ethereum transaction in its signature
field converts (`RLPToCanopyTransaction` / `V2`, an uninterpreted function given by its graph) to the
identical transaction, as in `VerifyRLPBytes`.

What is proved, for every environment, configuration, state, key type and message kind:

* `authorization` — an accepted transaction was authenticated by a key whose address is in the
  authorized set computed from the message and the state; every debited account is in that set; every
  changed validator is operated by, or pays out to, the signer; an output address is redirected only
  by the old output address; a created validator has the signer as operator or output; every changed
  or deleted order was sold by the signer; a created order is sold by the signer. Corollaries:
  `no_state_change_without_authorized_signature` (non-interference), `credits_are_named`.
* `accepted_content_was_signed`, `field_tamper_rejected`, `content_determined_by_fields` — the
  signature is over exactly the content: a transaction that differs from a signed one in any signed
  field is rejected unless the key holder signed that content too.
* `signer_from_verified_key` — stake / edit-stake debit the address derived from the VERIFIED key; a
  `Signer` carried on the wire is rejected.
* `multisig_member_signed` (full strength, live obligation) / `multisig_threshold` — acceptance under
  a multisig key implies that at least one listed member signed exactly the content, and at least
  `threshold` distinct listed members did.

Finding of this slice (repaired in /repo by dc0ba0c, recorded `fixed:` in known_findings.json): the
multisig clause was FALSE of the code for threshold 0 — a key with threshold 0 and an empty signer
bitmap authenticated any transaction with the identity of G2 as "signature", no private key involved
(`open_multisig_authenticates_without_signature`, kernel witness `open_multisig_witness`; without the
guard only `multisig_member_signed_partial` under `threshold ≥ 1` holds). The repair refuses a multisig
key naming no signer in `CheckSignature`; `signer_guard_source` pins the guard from the regenerated
source, `open_multisig_refused_with_guard` shows it closes the witness, and the Go driver re-offers
the transaction through all three verification paths on every run (oracle signature
`C05:multisig-no-signer-accepted`). Still accepted, by the documented meaning of threshold 0 ("no
enforcement"): ONE real member signature under a threshold-0 key — `multisig_member_signed` covers it.

The tie to the source (regenerated from `/repo` on every run, `Gen/Auth.lean`, closed by `decide`):
the three switches enumerate the same 16 kinds; `Auth.authSpec` renders to the generated table of
`GetAuthorizedSignersFor`; the bodies of `GetAuthorizedSignersForValidator`, of the multisig
`VerifyBytes` / `Address`, of `VerifyRLPBytes`, the edit-stake output guard, the `AccountSub` targets
of every handler, the fee payer, `PopulateSpecialMessageFields` and the fields `GetSignBytes` copies
are pinned to the text the model transcribes; `batch_verifier_verifies_every_lane_member` pins the
control flow of `BatchVerifier.verifyAll` (no early return; every key-type list of a lane is verified),
on which the model's having no verification-path dimension rests; `cacheKey_source`, `cacheKey_injective`
and `cache_hit_sound` do the same for the signature cache (the key is the full triple, so a hit means this
very triple was verified).

Not proved here (measured by the correspondence run instead, see `checks/C05.py`): that the hand
model of the handlers and of the order of checks equals the Go code; anything about the primitives.
Outside the model (`certificate_effects_partial`): what an accepted certificate-results message
orders on the committee's authority (swaps out of escrow, slashes, DEX batches) — those state changes
are authorized by the certificate's +2/3 signature, not by the owners, by design of the protocol.
-/
namespace Canopy.C05
open Canopy Canopy.Auth

set_option maxRecDepth 20000
set_option linter.unusedSimpArgs false

/-! ## the tie to the source -/

/-- `HandleMessage`, `GetFeeForMessageName` and `GetAuthorizedSignersFor` enumerate the same 16 kinds,
each once, and they are the kinds of the model -/
theorem switches_enumerate_same_kinds :
    Gen.Auth.handleKinds.length = 16 ∧ Gen.Auth.handleKinds.Nodup ∧
    Gen.Auth.feeKinds = Gen.Auth.handleKinds ∧
    Gen.Auth.authKinds.length = 16 ∧ Gen.Auth.authKinds.Nodup ∧
    (Gen.Auth.authKinds.all fun k => Gen.Auth.handleKinds.contains k) = true ∧
    Kind.all.map Kind.goType = Gen.Auth.authKinds ∧
    Kind.all.map (fun k => (k.goType, k.name)) =
      Gen.Auth.authKinds.map (fun t => (t, ((Gen.Auth.messageNames.find? (·.1 == t)).map (·.2)).getD "")) := by
  decide

/-- the model's authorization table is the table generated from `GetAuthorizedSignersFor` -/
theorem authSpec_matches_source :
    Kind.all.map (fun k => (k.goType, (authSpec k).map SignerExpr.render)) = Gen.Auth.authSigners ∧
    Gen.Auth.authDefault = "return nil, ErrUnknownMessage(x)" := by
  decide

/-- `GetAuthorizedSignersForValidator`: the operator alone when custodial, else operator and output
(`Auth.validatorSigners`); `pubKeyBytesToAddress`: the address of the decoded key (`Auth.pubKeyAddr`) -/
theorem validatorSigners_source :
    Gen.Auth.validatorSigners =
      "validator, err := s.GetValidator(crypto.NewAddressFromBytes(address)); if err != nil { return nil, err }; if bytes.Equal(validator.Address, validator.Output) { return [][]byte{validator.Address}, nil }; return [][]byte{validator.Address, validator.Output}, nil" ∧
    Gen.Auth.pubKeyBytesToAddress =
      "pk, err := crypto.NewPublicKeyFromBytes(public); if err != nil { return nil, ErrInvalidPublicKey(err) }; return pk.Address().Bytes(), nil" := by
  decide

/-- `CheckSignature` derives the address from the key it verified and returns it only when it matches
an authorized signer; `CheckTx` passes that address on as `sender` and into
`PopulateSpecialMessageFields`, which overwrites `Signer` of stake / edit-stake with it -/
theorem signer_is_the_verified_key_source :
    Gen.Auth.checkSignature.contains "publicKey, e := crypto.NewPublicKeyFromBytes(tx.Signature.PublicKey)" = true ∧
    Gen.Auth.checkSignature.contains "address := publicKey.Address()" = true ∧
    Gen.Auth.checkSignature.contains "for _, authorized := range authorizedSigners { if address.Equals(crypto.NewAddressFromBytes(authorized)) { return address, nil } }" = true ∧
    Gen.Auth.checkSignature.getLast? = some "return nil, ErrUnauthorizedTx()" ∧
    Gen.Auth.checkTxAuthorized = "authorizedSigners, err = s.GetAuthorizedSignersFor(msg)" ∧
    Gen.Auth.checkTxSender = "sender, err := s.CheckSignature(tx, authorizedSigners, batchVerifier)" ∧
    Gen.Auth.checkTxPopulate = "s.PopulateSpecialMessageFields(tx, sender, msg)" ∧
    Gen.Auth.populateParams = ["tx", "signer", "msg"] ∧
    Gen.Auth.populate.lookup "MessageStake" = some "x.Signer = signer.Bytes()" ∧
    Gen.Auth.populate.lookup "MessageEditStake" = some "x.Signer = signer.Bytes()" := by
  decide

/-- who the handlers debit (`AccountSub`), who pays the fee, and the edit-stake guard on the output
address — the expressions `Auth.handle` / `Auth.effects` transcribe -/
theorem debit_sources :
    Gen.Auth.handlerAccountSub =
      [("MessageSend", ["crypto.NewAddressFromBytes(msg.FromAddress)"]),
       ("MessageStake", ["crypto.NewAddress(msg.Signer)"]),
       ("MessageEditStake", ["crypto.NewAddress(msg.Signer)"]),
       ("MessageUnstake", []), ("MessagePause", []), ("MessageUnpause", []), ("MessageChangeParameter", []),
       ("MessageDAOTransfer", []), ("MessageCertificateResults", []),
       ("MessageSubsidy", ["crypto.NewAddressFromBytes(msg.Address)"]),
       ("MessageCreateOrder", ["crypto.NewAddress(msg.SellersSendAddress)"]),
       ("MessageEditOrder", ["crypto.NewAddress(order.SellersSendAddress)"]),
       ("MessageDeleteOrder", []),
       ("MessageDexLimitOrder", ["crypto.NewAddress(msg.Address)"]),
       ("MessageDexLiquidityDeposit", ["crypto.NewAddress(msg.Address)"]),
       ("MessageDexLiquidityWithdraw", [])] ∧
    Gen.Auth.applyFeeCall = "s.AccountDeductFees(result.sender, result.tx.Fee)" ∧
    Gen.Auth.applyHandleCall = "s.HandleMessage(result.msg)" ∧
    Gen.Auth.applyOrder = ["CheckTx", "AccountDeductFees", "HandleMessage"] ∧
    Gen.Auth.editStakeOutputGuard =
      "if !bytes.Equal(val.Output, msg.OutputAddress) && !bytes.Equal(val.Output, msg.Signer) { return ErrUnauthorizedTx() }" := by
  decide

/-- `GetSignBytes` copies every field of `lib.Transaction` except `Signature`, which it sets to nil;
`Auth.Content` has exactly those fields -/
theorem signBytes_cover_all_but_signature :
    (Gen.Auth.transactionFields.all fun f =>
      Gen.Auth.signBytesFields.contains (f, if f == "Signature" then "nil" else "x." ++ f)) = true ∧
    Gen.Auth.signBytesFields.length = Gen.Auth.transactionFields.length ∧
    Content.goFields = Gen.Auth.transactionFields.filter (· != "Signature") ∧
    Gen.Auth.signBody =
      "signBytes, err := x.GetSignBytes(); if err != nil { return }; x.Signature = &Signature{PublicKey: pk.PublicKey().Bytes(), Signature: pk.Sign(signBytes)}; return" := by
  decide

/-- the multisig verification rule and address derivation the model transcribes, and the decode-time
guards (`PubKey.wf`: non-empty, threshold ≤ n, no duplicate member) -/
theorem multisig_source :
    Gen.Auth.multiVerify =
      "publicKey, _ := b.scheme.AggregatePublicKeys(b.mask); if b.scheme.Verify(publicKey, msg, sig) != nil { return false }; return b.threshold == 0 || uint32(b.mask.CountEnabled()) >= b.threshold" ∧
    Gen.Auth.multiAddress =
      "var together []byte; for _, k := range b.PubKeys() { together = append(together, k...) }; threshold := make([]byte, 4); binary.BigEndian.PutUint32(threshold, b.threshold); together = append(together, threshold...); return Address(Hash(together)[:20])" ∧
    Gen.Auth.multiDecodeGuards =
      ["len(mpk.PublicKeys) == 0 || len(mpk.Bitmap) == 0 || mpk.Threshold > uint32(len(mpk.PublicKeys))", "exists",
       -- 8c75cbd: padding bits of the signer bitmap must be zero (C06: replay-by-multisig-bitmap-padding)
       "n % 8 != 0 && mpk.Bitmap[len(mpk.Bitmap) - 1] >> uint(n % 8) != 0"] := by
  decide

/-- `VerifyRLPBytes`: the transaction re-derived from the raw bytes must hash like the submitted one
(`Auth.verifyRLP`: equality of the two transactions) -/
theorem verifyRLP_source :
    Gen.Auth.verifyRLP =
      "compare, err := RLPToCanopyTransaction(tx.Signature.Signature); if tx.Memo == RLPV2Indicator { compare, err = RLPToCanopyTransactionV2(tx.Signature.Signature) }; if err != nil { return err }; compareHash, err := compare.GetHash(); if err != nil { return err }; originalHash, err := tx.GetHash(); if err != nil { return err }; if !bytes.Equal(compareHash, originalHash) { return ErrInvalidSignature() }; return nil" := by
  decide

/-- The batch path is per-transaction verification: `ApplyTransactions` checks every transaction with
the shared batch verifier, marks what `Verify()` reports and executes with a NO-OP verifier — so the
batch verifier's verdict is final. `verifyAll` therefore has to reach, for its lane, the ed25519 block
AND the one-by-one verification of the eth-secp256k1, secp256k1 and BLS (single and multisig) tuples:
no `return` before its last statement (an early exit in the ed25519 block — e.g. "every ed25519
signature was cached" — would let the other key types of the lane through unverified); the
one-by-one closure reports every tuple whose `VerifyBytes` fails; `Add` files every supported key
type into a list that `verifyAll` visits. The model has no path dimension because of this. -/
theorem batch_verifier_verifies_every_lane_member :
    Gen.Auth.verifyAllShape =
      ["verifyBatch := func", "if len(b.ed25519[idx]) != 0 {…}", "verifyBatch(b.ethSecp256k1[idx])",
       "verifyBatch(b.secp256k1[idx])", "verifyBatch(b.bls12381[idx])", "return"] ∧
    Gen.Auth.verifyAllEarlyReturns = 0 ∧
    Gen.Auth.verifyAllClosure =
      "for _, tuple := range tuples { if ok := tuple.PublicKey.VerifyBytes(tuple.Message, tuple.Signature); ok { SignatureCache.Set(tuple.Key(), []byte{0}) } else { badIndices = append(badIndices, tuple.index) } }; return" ∧
    Gen.Auth.batchAddLanes.map (·.1) =
      ["*ED25519PublicKey", "*ETHSECP256K1PublicKey", "*SECP256K1PublicKey", "*BLS12381PublicKey, *BLS12381MultiPublicKey", "default"] ∧
    Gen.Auth.batchAddLanes.lookup "default" = some "return fmt.Errorf(\"unrecognized public key format\")" ∧
    Gen.Auth.applyTransactionsBatchUses =
      ["crypto.NewBatchVerifier()", "s.CheckTx(tx, \"\", batchVerifier)", "batchVerifier.Verify()",
       "s.ApplyTransaction(uint64(r.Count), tx, hashString, crypto.NewBatchVerifier(true))", "crypto.NewBatchVerifier(true)"] ∧
    -- the map from batch indices back to transactions is extended for EVERY transaction, whatever CheckTx
    -- answered: `CheckSignature` queues the signature before it can still fail (unauthorized signer), so a
    -- skipped bookkeeping step would shift every later verdict onto the wrong transaction
    Gen.Auth.firstPassBookkeepingUnconditional = true ∧
    Gen.Auth.applyTransactionsFirstPass.getLast? = some "for j := preCount; j < postCount; j++ { batchToTxIdx = append(batchToTxIdx, i) }" ∧
    Gen.Auth.applyTransactionsFirstPass.contains
      "if _, checkErr := s.CheckTx(tx, \"\", batchVerifier); checkErr != nil { failedCheckTxs[i] = checkErr }" = true := by
  decide

/-! ## the signature cache remembers exactly what was verified -/

/-- `BatchTuple.Key()` is public key ‖ message ‖ signature in full (`Auth.cacheKey`; the driver op
`cachekey` also compares the two on messages of 0 … 5000 bytes on every run), and `CheckCache` looks up
and stores exactly that key -/
theorem cacheKey_source :
    Gen.Auth.cacheKeySource =
      "pk := bt.PublicKey.Bytes(); totalLen := len(pk) + len(bt.Message) + len(bt.Signature); b, offset := make([]byte, totalLen), 0; copy(b[offset:], pk); offset += len(pk); copy(b[offset:], bt.Message); offset += len(bt.Message); copy(b[offset:], bt.Signature); return string(b)" ∧
    Gen.Auth.checkCacheSource =
      "if DisableCache { return false, func(...){} }; cacheTuple := BatchTuple{PublicKey: pk, Message: msg, Signature: sig}; key := cacheTuple.Key(); addToCache = func(...){SignatureCache.Set(key, []byte{0})}; _, notFoundErr := SignatureCache.Get(key); found = notFoundErr == nil; return" := by
  decide

/-- Sound insertion: in the ed25519 lane of the batch verifier tuples are written into the signature
cache only on the branch where the batch equation HELD; when it fails, only the one-by-one closure
caches, and only what `VerifyBytes` accepted (`batch_verifier_verifies_every_lane_member` pins the
closure). So `remembered` in `cache_hit_sound` really is a set of verified triples: a forged tuple that
made a batch fail is not left behind as "verified" for its next presentation. -/
theorem cache_populated_only_after_success :
    Gen.Auth.ed25519CacheOnlyAfterSuccess = true ∧
    Gen.Auth.ed25519BatchDecision =
      "if !verifier.VerifyBatchOnly(rand.Reader) { verifyBatch(b.ed25519[idx]) } else { for i, _ := range notInCache { _ = SignatureCache.Set(cacheKeys[i], []byte{0}) } }" := by
  decide

/-- the key determines the triple once the lengths of key and signature are fixed (they are, per
signature scheme: 48/96 BLS, 32/64 ed25519, 33/64 secp256k1, 64/64 eth-secp256k1) -/
theorem cacheKey_injective (pk pk' m m' sg sg' : Bytes) (hp : pk.length = pk'.length) (hs : sg.length = sg'.length)
    (h : cacheKey pk m sg = cacheKey pk' m' sg') : pk = pk' ∧ m = m' ∧ sg = sg' := by
  unfold cacheKey at h
  rw [List.append_assoc, List.append_assoc] at h
  obtain ⟨h1, h2⟩ := List.append_inj h hp
  have hl : (m ++ sg).length = (m' ++ sg').length := by rw [h2]
  have hm : m.length = m'.length := by simp at hl; omega
  obtain ⟨h3, h4⟩ := List.append_inj h2 hm
  exact ⟨h1, h3, h4⟩

/-- Cache soundness: a cache hit means this very (key, message, signature) triple was verified before
— a message that differs anywhere, or another signature, cannot ride on a remembered verification.
(Within one scheme; across schemes the unframed concatenation is an idealisation, see checks/C05.py.) -/
theorem cache_hit_sound (remembered : List (Bytes × Bytes × Bytes)) (pk m sg : Bytes) (lp ls : Nat)
    (hrem : ∀ t ∈ remembered, t.1.length = lp ∧ t.2.2.length = ls) (hp : pk.length = lp) (hs : sg.length = ls)
    (h : cacheHit remembered pk m sg = true) : (pk, m, sg) ∈ remembered := by
  unfold cacheHit at h
  simp only [List.contains_iff_mem, List.mem_map] at h
  obtain ⟨⟨pk', m', sg'⟩, hmem, hk⟩ := h
  obtain ⟨l1, l2⟩ := hrem _ hmem
  obtain ⟨rfl, rfl, rfl⟩ := cacheKey_injective pk' pk m' m sg' sg (by simpa [hp] using l1) (by simpa [hs] using l2) hk
  exact hmem

/-- non-vacuity, and what a truncating key would break: same key, same signature, message differing
only in its tail -/
example : cacheHit [([1, 2], [7, 7, 7, 8], [5])] [1, 2] [7, 7, 7, 8] [5] = true ∧
    cacheHit [([1, 2], [7, 7, 7, 8], [5])] [1, 2] [7, 7, 7, 9] [5] = false := by decide

deriving instance DecidableEq for Except

/-! ## authorization -/

/-- The property in the model's vocabulary: whatever `applyTx` accepts was authenticated by a key
whose address the message's rules authorize in this state, and every debit / redirection / change of
something owned is covered by that authorization. -/
def Authorization (e : Env) (cfg : Cfg) (st : State) : Prop :=
  ∀ (tx : Tx) (nid : Bytes) (s : Addr) (log : List Change), applyTx e cfg st tx nid = .ok (s, log) →
    ∃ m auth pk,
      tx.content.msg = some m ∧ authorized e st m = .ok auth ∧
      -- a valid signature, over exactly the content, by a key whose address is authorized
      tx.pk = some pk ∧ authenticates e tx pk = .ok () ∧ e.addrOf pk = some s ∧ s ∈ auth ∧
      -- accounts: every debit is of an authorized signer's account
      (∀ a ∈ debited log, a ∈ auth) ∧
      -- stakes: a changed validator is operated by, or pays out to, the signer
      (∀ a ∈ validatorsChanged log, ∃ v, st.val a = some v ∧ (s = v.address ∨ s = v.output)) ∧
      -- … and only its current output address can redirect the payout
      (∀ a ∈ outputsRedirected log, ∃ v, st.val a = some v ∧ s = v.output) ∧
      (∀ p ∈ validatorsCreated log, s = p.1 ∨ s = p.2) ∧
      -- escrow: a changed or deleted order was sold by the signer; a new order is sold by the signer
      (∀ k ∈ ordersTouched log, ∃ o, st.order k.1 k.2 = some o ∧ s = o.seller) ∧
      (∀ a ∈ ordersCreated log, a = s)

/-- the fee log and the fee-pool entry touch nothing but the signer's balance -/
private theorem base_log {st : State} {s : Addr} {fee : Nat} {chain : Nat} {l0 : List Change}
    (h : debit st [] s fee = .ok l0) :
    let b := l0 ++ (if fee > 0 then [Change.pool chain fee] else [])
    (∀ a ∈ debited b, a = s) ∧ validatorsChanged b = [] ∧ outputsRedirected b = [] ∧ validatorsCreated b = [] ∧
    ordersTouched b = [] ∧ ordersCreated b = [] ∧ credited b = [] := by
  rcases debit_ok h with rfl | rfl <;> (intro b; simp only [b]; split <;> cls)

private theorem mem_of_nonce {P : List Change → List α} (happ : ∀ a b, P (a ++ b) = P a ++ P b)
    (hn : ∀ s, P [Change.nonce s] = []) {log l : List Change} {s : Addr}
    (h : log = l ∨ log = l ++ [.nonce s]) : P log = P l := by
  rcases h with rfl | rfl
  · rfl
  · rw [happ, hn]; simp

theorem authorization (e : Env) (cfg : Cfg) (st : State) : Authorization e cfg st := by
  intro tx nid s log h
  obtain ⟨m, auth, hpre, hauth, hsig, heff⟩ := applyTx_ok h
  obtain ⟨pk, hpk, _, hauthn, haddr, hmem, _⟩ := checkSignature_ok hsig
  obtain ⟨l0, l, hl0, hl, hlog⟩ := effects_ok heff
  obtain ⟨b1, b2, b3, b4, b5, b6, _⟩ := base_log (chain := cfg.chain) hl0
  have e1 : debited log = debited l := mem_of_nonce debited_append (fun _ => by cls) hlog
  have e2 : validatorsChanged log = validatorsChanged l := mem_of_nonce validatorsChanged_append (fun _ => by cls) hlog
  have e3 : outputsRedirected log = outputsRedirected l := mem_of_nonce outputsRedirected_append (fun _ => by cls) hlog
  have e4 : validatorsCreated log = validatorsCreated l := mem_of_nonce validatorsCreated_append (fun _ => by cls) hlog
  have e5 : ordersTouched log = ordersTouched l := mem_of_nonce ordersTouched_append (fun _ => by cls) hlog
  have e6 : ordersCreated log = ordersCreated l := mem_of_nonce ordersCreated_append (fun _ => by cls) hlog
  refine ⟨m, auth, pk, precheck_msg hpre, hauth, hpk, hauthn, haddr, hmem, ?_, ?_, ?_, ?_, ?_, ?_⟩
  · intro a ha
    rw [e1] at ha
    rcases handle_debited hauth hmem hl a ha with hb | hb
    · rw [b1 a hb]; exact hmem
    · exact hb
  · intro a ha
    rw [e2] at ha
    rcases handle_validatorsChanged hauth hmem hl a ha with hb | hb
    · rw [b2] at hb; cases hb
    · exact hb
  · intro a ha
    rw [e3] at ha
    rcases handle_outputsRedirected hauth hmem hl a ha with hb | hb
    · rw [b3] at hb; cases hb
    · exact hb
  · intro p hp
    rw [e4] at hp
    rcases handle_validatorsCreated hauth hmem hl p hp with hb | hb
    · rw [b4] at hb; cases hb
    · exact hb
  · intro k hk
    rw [e5] at hk
    rcases handle_ordersTouched hauth hmem hl k hk with hb | hb
    · rw [b5] at hb; cases hb
    · exact hb
  · intro a ha
    rw [e6] at ha
    rcases handle_ordersCreated hauth hmem hl a ha with hb | hb
    · rw [b6] at hb; cases hb
    · exact hb

/-- Non-interference: if no key whose address is authorized for the message authenticated this exact
transaction, nothing changes (the transaction is rejected). -/
theorem no_state_change_without_authorized_signature (e : Env) (cfg : Cfg) (st : State) (tx : Tx) (nid : Bytes)
    (m : Msg) (auth : List Addr) (hm : tx.content.msg = some m) (hauth : authorized e st m = .ok auth)
    (h : ∀ pk a, tx.pk = some pk → e.addrOf pk = some a → a ∈ auth → authenticates e tx pk ≠ .ok ()) :
    ∀ r, applyTx e cfg st tx nid ≠ .ok r := by
  intro r hr
  obtain ⟨s, log⟩ := r
  obtain ⟨m', auth', pk, hm', hauth', hpk, hauthn, haddr, hmem, _⟩ := authorization e cfg st tx nid s log hr
  rw [hm] at hm'
  cases hm'
  rw [hauth] at hauth'
  cases hauth'
  exact h pk s hpk haddr hmem hauthn

/-- every credit goes to an address the signed message names (the recipient, the owner address, the
seller of the referenced order): funds are not redirected to a party the signer did not name -/
theorem credits_are_named (e : Env) (cfg : Cfg) (st : State) (tx : Tx) (nid : Bytes) (s : Addr) (log : List Change)
    (h : applyTx e cfg st tx nid = .ok (s, log)) :
    ∃ m, tx.content.msg = some m ∧
      ∀ a ∈ credited log, a = m.to ∨ a = m.a ∨ ∃ o, st.order m.ch m.oid = some o ∧ a = o.seller := by
  obtain ⟨m, auth, hpre, _, _, heff⟩ := applyTx_ok h
  obtain ⟨l0, l, hl0, hl, hlog⟩ := effects_ok heff
  obtain ⟨_, _, _, _, _, _, b7⟩ := base_log (chain := cfg.chain) hl0
  have e1 : credited log = credited l := mem_of_nonce credited_append (fun _ => by cls) hlog
  refine ⟨m, precheck_msg hpre, ?_⟩
  intro a ha
  rw [e1] at ha
  rcases handle_credited hl a ha with hb | hb
  · rw [b7] at hb; cases hb
  · exact hb

/-- Partial: for certificate results the model records only that committee data changes. What the
certificate orders (swaps out of escrow, slashes, DEX batches) is executed on the authority of the
committee's +2/3 signature over the certificate, not of the affected owners, and is outside this
model (see C20 / C14 for those effects). What IS proved: the transaction is accepted only when signed
by the key named as proposer inside the certificate, and only for a certificate the committee signed. -/
theorem certificate_effects_partial (e : Env) (cfg : Cfg) (st : State) (m : Msg) (s : Addr) (nid : Bytes)
    (log l : List Change) (hk : m.kind = .certificateResults) (h : handle e cfg st m s nid log = .ok l) :
    l = log ++ [.sys "cdata"] ∧ (m.oid.toArray.toList, true) ∈ e.qcs.map (fun q => (q.1.toArray.toList, q.2)) ∧
    m.ch ≠ cfg.root ∧ m.ch ≠ cfg.chain := by
  unfold handle at h
  simp only [hk] at h
  split at h
  · cases h
  · rename_i hne
    split at h
    · cases h
    · rename_i q hq
      split at h
      · rename_i hfull
        cases h
        have hmemq := List.mem_of_find?_eq_some hq
        have hid := List.find?_some hq
        simp at hid hne
        refine ⟨rfl, ?_, hne.1, hne.2⟩
        simp only [List.mem_map]
        refine ⟨q, hmemq, ?_⟩
        simp [hid, hfull]
      · cases h

/-! ## the signature is over exactly the content -/

/-- An accepted transaction's content is exactly what was authenticated: for the signature path the
key verifies this content with this signature; for the Ethereum wrapper path the raw transaction in
the signature field converts to a transaction with exactly this content and this key. -/
theorem accepted_content_was_signed (e : Env) (cfg : Cfg) (st : State) (tx : Tx) (nid : Bytes) (s : Addr)
    (log : List Change) (h : applyTx e cfg st tx nid = .ok (s, log)) :
    ∃ pk, tx.pk = some pk ∧ e.addrOf pk = some s ∧
      (e.verifies pk tx.content tx.sig = true ∨
       (pk.isEth = true ∧ ∃ r ∈ e.rlp, r.raw = tx.sig ∧ r.content = tx.content ∧ r.pk = pk)) := by
  obtain ⟨m, auth, pk, _, _, hpk, hauthn, haddr, _⟩ := authorization e cfg st tx nid s log h
  refine ⟨pk, hpk, haddr, ?_⟩
  unfold authenticates at hauthn
  split at hauthn
  · split at hauthn
    · cases hauthn
    · rename_i heth
      right
      refine ⟨by simpa using heth, ?_⟩
      unfold verifyRLP at hauthn
      simp only [] at hauthn
      split at hauthn
      · cases hauthn
      · split at hauthn
        · cases hauthn
        · rename_i r hr
          split at hauthn
          · rename_i heq
            have hmemr := List.mem_of_find?_eq_some hr
            have hp := List.find?_some hr
            simp at hp
            exact ⟨r, hmemr, hp.2, heq.1, heq.2⟩
          · cases hauthn
  · split at hauthn
    · rename_i hv; left; exact hv
    · cases hauthn

/-- Field-tamper corollary (single keys, signature path): if the holder of `b` never produced
`sig` over the content `c'` — in particular when `c'` is a signed content with any one signed field
changed — a transaction carrying `c'` under that key and signature is rejected. -/
theorem field_tamper_rejected (e : Env) (cfg : Cfg) (st : State) (sch : Scheme) (b : Bytes) (c' : Content)
    (sig : String) (nid : Bytes) (hnot : (b, c', sig) ∉ e.signed)
    (hpath : c'.memo ≠ rlpV2Memo ∧ ¬ (c'.memo = rlpMemo ∧ sch = .eth)) :
    ∀ r, applyTx e cfg st ⟨c', some (.single sch b), sig⟩ nid ≠ .ok r := by
  intro r hr
  obtain ⟨s, log⟩ := r
  obtain ⟨pk, hpk, _, hv⟩ := accepted_content_was_signed e cfg st _ nid s log hr
  cases hpk
  rcases hv with hv | ⟨heth, r, hr', _, hc, hp⟩
  · simp [Env.verifies] at hv
    exact hnot hv
  · -- the wrapper path needs an Ethereum key AND an RLP memo
    obtain ⟨m, auth, _, _, hsig, _⟩ := applyTx_ok hr
    obtain ⟨pk', hpk', _, hauthn, _⟩ := checkSignature_ok hsig
    cases hpk'
    unfold authenticates at hauthn
    have hsch : sch = .eth := by
      cases sch <;> simp [PubKey.isEth] at heth ⊢
    subst hsch
    simp [hpath.1, PubKey.isEth] at hauthn
    have : ¬ c'.memo = rlpMemo := fun hm => hpath.2 ⟨hm, rfl⟩
    simp [this, Env.verifies] at hauthn
    exact hnot hauthn

/-- Two contents that agree on every field `GetSignBytes` copies are the same content; so changing
any one of them (message type, any payload field incl. the digest of the unlisted ones, time, created
height, fee, memo, network id, chain id, nonce) yields a different content. -/
theorem content_determined_by_fields (c c' : Content) :
    c = c' ↔ c.messageType = c'.messageType ∧ c.msg = c'.msg ∧ c.time = c'.time ∧ c.createdHeight = c'.createdHeight ∧
      c.fee = c'.fee ∧ c.memo = c'.memo ∧ c.networkId = c'.networkId ∧ c.chainId = c'.chainId ∧ c.nonce = c'.nonce := by
  constructor
  · rintro rfl; simp
  · intro h
    cases c; cases c'
    simp_all

/-- e.g. raising the fee or redirecting the recipient after signing changes the content -/
example (c : Content) (f : Nat) (h : f ≠ c.fee) : { c with fee := f } ≠ c := by
  intro hc
  have := congrArg Content.fee hc
  exact h this

/-! ## the signer used by stake / edit-stake -/

/-- `signer_from_verified_key`: for stake and edit-stake the wire must not carry a `Signer`, and the
account debited (fee and stake) is the address of the key that authenticated the transaction — not an
address chosen by the sender. -/
theorem signer_from_verified_key (e : Env) (cfg : Cfg) (st : State) (tx : Tx) (nid : Bytes) (s : Addr)
    (log : List Change) (m : Msg) (h : applyTx e cfg st tx nid = .ok (s, log)) (hm : tx.content.msg = some m)
    (hk : m.kind = .stake ∨ m.kind = .editStake) :
    m.wireSigner = false ∧ (∀ a ∈ debited log, a = s) ∧
    ∃ pk, tx.pk = some pk ∧ authenticates e tx pk = .ok () ∧ e.addrOf pk = some s := by
  obtain ⟨m', auth, hpre, hauth, hsig, heff⟩ := applyTx_ok h
  have hm' := precheck_msg hpre
  rw [hm] at hm'
  cases hm'
  obtain ⟨pk, hpk, _, hauthn, haddr, hmem, _⟩ := checkSignature_ok hsig
  refine ⟨precheck_noWireSigner hpre, ?_, pk, hpk, hauthn, haddr⟩
  obtain ⟨l0, l, hl0, hl, hlog⟩ := effects_ok heff
  obtain ⟨b1, _⟩ := base_log (chain := cfg.chain) hl0
  have e1 : debited log = debited l := mem_of_nonce debited_append (fun _ => by cls) hlog
  intro a ha
  rw [e1] at ha
  clear e1 hlog heff h
  -- the handlers of these two kinds debit `signer` only
  generalize (l0 ++ (if tx.content.fee > 0 then [Change.pool cfg.chain tx.content.fee] else [])) = B at hl b1
  unfold handle at hl
  rcases hk with hk | hk <;> simp only [hk] at hl
  · repeat' split at hl
    all_goals (try (cases hl; done))
    all_goals (
      cases hl
      rename_i hd
      rcases debit_ok hd with rfl | rfl
      · simp [Change.debitedAddr] at ha; exact b1 a ha
      · simp [Change.debitedAddr] at ha
        rcases ha with ha | rfl
        · exact b1 a ha
        · rfl)
  · repeat' split at hl
    all_goals (try (cases hl; done))
    all_goals (
      cases hl
      rename_i hd
      rcases debit_ok hd with rfl | rfl
      · simp [Change.debitedAddr] at ha; exact b1 a ha
      · simp [Change.debitedAddr] at ha
        rcases ha with ha | rfl
        · exact b1 a ha
        · rfl)

/-! ## multisig thresholds -/

theorem enabled_sublist (ks : List Bytes) (bits : List Bool) (h : bits.length = ks.length) :
    (enabled ks bits).Sublist ks := by
  unfold enabled
  have h1 : (((ks.zip bits).filter (·.2)).map (·.1)).Sublist ((ks.zip bits).map (·.1)) :=
    List.Sublist.map _ List.filter_sublist
  have h2 : (ks.zip bits).map (·.1) = ks := List.map_fst_zip (by omega)
  rw [h2] at h1
  exact h1

/-- the multisig verification result behind an accepted transaction -/
private theorem multisig_verifies {e : Env} {cfg : Cfg} {st : State} {tx : Tx} {nid : Bytes} {s : Addr}
    {log : List Change} {ks : List Bytes} {bits : List Bool} {thr : Nat}
    (hpk : tx.pk = some (.multi ks bits thr)) (h : applyTx e cfg st tx nid = .ok (s, log)) :
    e.verifies (.multi ks bits thr) tx.content tx.sig = true ∧ (PubKey.multi ks bits thr).wf = true ∧
    (cfg.requireSigner = true → enabled ks bits ≠ []) := by
  obtain ⟨m, auth, _, _, hsig, _⟩ := applyTx_ok h
  obtain ⟨pk, hpk', hwfk, hauthn, _, _, hg⟩ := checkSignature_ok hsig
  rw [hpk] at hpk'
  cases hpk'
  refine ⟨?_, hwfk, ?_⟩
  · -- not the wrapper path: a multisig key is no Ethereum key
    unfold authenticates at hauthn
    split at hauthn
    · simp [PubKey.isEth] at hauthn
    · split at hauthn
      · assumption
      · cases hauthn
  · intro hr
    have := hg hr
    simpa [PubKey.noSigner] using this

/-- Acceptance under a multisig key `(keys, bitmap, threshold)` implies: at least `threshold`
distinct keys of the listed set signed exactly this content. (`Env.WF`: an aggregate exists only over
signatures its members produced.) Holds with and without the signer guard; for `threshold = 0` it is
vacuous — see `multisig_member_signed` for the clause that is not. -/
theorem multisig_threshold (e : Env) (hwf : e.WF) (cfg : Cfg) (st : State) (tx : Tx) (nid : Bytes) (s : Addr)
    (log : List Change) (ks : List Bytes) (bits : List Bool) (thr : Nat)
    (hpk : tx.pk = some (.multi ks bits thr)) (h : applyTx e cfg st tx nid = .ok (s, log)) :
    ∃ S : List Bytes, S.Sublist ks ∧ S.Nodup ∧ thr ≤ S.length ∧ ∀ k ∈ S, ∃ sg, (k, tx.content, sg) ∈ e.signed := by
  obtain ⟨hv, hwfk, _⟩ := multisig_verifies hpk h
  simp [Env.verifies, Env.aggregateValid] at hv
  simp [PubKey.wf] at hwfk
  obtain ⟨hagg, hthr⟩ := hv
  obtain ⟨⟨⟨_, _⟩, hnd⟩, hlen⟩ := hwfk
  have hsub := enabled_sublist ks bits hlen
  refine ⟨enabled ks bits, hsub, hsub.nodup hnd, ?_, ?_⟩
  · rcases hthr with h0 | h1
    · omega
    · exact h1
  · intro k hk
    rcases hagg with hagg | ⟨hempty, _⟩
    · exact hwf tx.sig tx.content ks bits hagg k hk
    · rw [hempty] at hk; cases hk

/-- **The multisig clause at full strength** (live obligation since repair dc0ba0c; the hypothesis
`cfg.requireSigner = true` is what the regenerated source fact `signer_guard_source` shows of the
code): acceptance under a multisig key implies that at least one listed member signed exactly this
content, and at least `threshold` distinct listed members did. -/
theorem multisig_member_signed (e : Env) (hwf : e.WF) (cfg : Cfg) (hguard : cfg.requireSigner = true) (st : State)
    (tx : Tx) (nid : Bytes) (s : Addr) (log : List Change) (ks : List Bytes) (bits : List Bool) (thr : Nat)
    (hpk : tx.pk = some (.multi ks bits thr)) (h : applyTx e cfg st tx nid = .ok (s, log)) :
    (∃ k ∈ ks, ∃ sg, (k, tx.content, sg) ∈ e.signed) ∧
    ∃ S : List Bytes, S.Sublist ks ∧ S.Nodup ∧ thr ≤ S.length ∧ ∀ k ∈ S, ∃ sg, (k, tx.content, sg) ∈ e.signed := by
  refine ⟨?_, multisig_threshold e hwf cfg st tx nid s log ks bits thr hpk h⟩
  obtain ⟨hv, hwfk, hne⟩ := multisig_verifies hpk h
  have hne := hne hguard
  simp [Env.verifies, Env.aggregateValid] at hv
  simp [PubKey.wf] at hwfk
  obtain ⟨hagg, _⟩ := hv
  obtain ⟨_, hlen⟩ := hwfk
  have hsub := enabled_sublist ks bits hlen
  rcases hagg with hagg | ⟨hempty, _⟩
  · match hen : enabled ks bits with
    | [] => exact absurd hen hne
    | k :: _ =>
      have hk : k ∈ enabled ks bits := by rw [hen]; simp
      exact ⟨k, hsub.subset hk, hwf tx.sig tx.content ks bits hagg k hk⟩
  · exact absurd hempty hne

/-- Without the guard the same clause holds only under the hypothesis `threshold ≥ 1` -/
theorem multisig_member_signed_partial (e : Env) (hwf : e.WF) (cfg : Cfg) (st : State) (tx : Tx) (nid : Bytes)
    (s : Addr) (log : List Change) (ks : List Bytes) (bits : List Bool) (thr : Nat) (hthr : thr ≥ 1)
    (hpk : tx.pk = some (.multi ks bits thr)) (h : applyTx e cfg st tx nid = .ok (s, log)) :
    ∃ k ∈ ks, ∃ sg, (k, tx.content, sg) ∈ e.signed := by
  obtain ⟨S, hsub, _, hlen, hS⟩ := multisig_threshold e hwf cfg st tx nid s log ks bits thr hpk h
  match S, hlen, hsub, hS with
  | [], hlen, _, _ => simp at hlen; omega
  | k :: _, _, hsub, hS => exact ⟨k, hsub.subset (by simp), hS k (by simp)⟩

/-- the guard of repair dc0ba0c is in the source, between decoding the key and verifying anything -/
theorem signer_guard_source :
    Gen.Auth.multisigSignerGuard =
      "if multiKey, isMulti := publicKey.(*crypto.BLS12381MultiPublicKey); isMulti && multiKey.EnabledSignerCount() == 0 { return nil, ErrInvalidSignature() }" ∧
    Gen.Auth.multisigSignerGuardInPlace = true := by
  decide

/-- **Before the repair the clause was false for threshold 0** (found by this slice, reproduced on the
real code through all three verification paths, recorded as `fixed:` in known_findings; the Go driver
re-offers the transaction on every run under the oracle signature `C05:multisig-no-signer-accepted`):
the verification layer — unchanged by the repair — authenticates, for EVERY member list and EVERY
content, the key with threshold 0 and an empty bitmap with the identity of G2 as "signature", in ANY
environment, in particular one in which nobody has signed anything. (`NewPublicKeyFromBytes` decodes
multisig keys with the consensus constructor, which allows threshold 0; the aggregate key of an empty
mask is the identity of G1, against which the identity signature verifies for every message;
`threshold == 0 ||` waives the signer count.) -/
theorem open_multisig_authenticates_without_signature (e : Env) (ks : List Bytes) (c : Content)
    (hm : c.memo ≠ rlpV2Memo) :
    authenticates e ⟨c, some (.multi ks (List.replicate ks.length false) 0), identitySig⟩
      (.multi ks (List.replicate ks.length false) 0) = .ok () := by
  have hen : enabled ks (List.replicate ks.length false) = [] := by
    unfold enabled
    have : (ks.zip (List.replicate ks.length false)).filter (·.2) = [] := by
      rw [List.filter_eq_nil_iff]
      intro p hp
      have := (List.of_mem_zip hp).2
      simp [List.mem_replicate] at this
      simp [this]
    rw [this]; rfl
  unfold authenticates
  simp [hm, PubKey.isEth, Env.verifies, Env.aggregateValid, hen]

/-- the pre-repair witness, evaluated by the kernel: three members, an environment in which nobody
signed anything, the address of the key authorized. Without the guard `CheckSignature` returns that
address (the transaction goes on to debit it); with the guard it answers `ErrInvalidSignature`; with
threshold 2 the empty bitmap was always refused. -/
theorem open_multisig_witness :
    let c : Content := { messageType := "send", msg := none, time := 1, createdHeight := 1, fee := 1, memo := "",
                         networkId := 1, chainId := 1, nonce := 0 }
    let e : Env := {}
    let k0 := PubKey.multi [[1], [2], [3]] [false, false, false] 0
    let k2 := PubKey.multi [[1], [2], [3]] [false, false, false] 2
    authenticates e ⟨c, some k0, identitySig⟩ k0 = .ok () ∧
    k0.wf = true ∧ k0.noSigner = true ∧
    authenticates e ⟨c, some k2, identitySig⟩ k2 = .error eInvalidSignature := by
  decide

/-- the guard turns the witness into a rejection whatever the authorized set is -/
theorem open_multisig_refused_with_guard (e : Env) (c : Content) (auth : List Addr) (ks : List Bytes) (thr : Nat) :
    ∀ a, checkSignature true e ⟨c, some (.multi ks (List.replicate ks.length false) thr), identitySig⟩ auth ≠ .ok a := by
  intro a h
  obtain ⟨pk, hpk, _, _, _, _, hg⟩ := checkSignature_ok h
  cases hpk
  have := hg rfl
  have hen : enabled ks (List.replicate ks.length false) = [] := by
    unfold enabled
    have : (ks.zip (List.replicate ks.length false)).filter (·.2) = [] := by
      rw [List.filter_eq_nil_iff]
      intro p hp
      have := (List.of_mem_zip hp).2
      simp [List.mem_replicate] at this
      simp [this]
    rw [this]; rfl
  simp [PubKey.noSigner, hen] at this

/-! ## non-vacuity -/

namespace Demo
def alice : Addr := List.replicate 20 1
def mallory : Addr := List.replicate 20 2
def bob : Addr := List.replicate 20 3
def kA : Bytes := [0xA]
def kM : Bytes := [0xB]
def send (to : Addr) (amt : Nat) : Content :=
  { messageType := "send", msg := some { kind := .send, a := alice, to := to, amt := amt, rest := "m1" },
    time := 7, createdHeight := 1, fee := 10, memo := "", networkId := 1, chainId := 1, nonce := 0 }
/-- Alice (a secp256k1 key with a declared address) signed one send of 5 to Bob; Mallory signed the same content -/
def env : Env :=
  { addrs := [(kA, alice), (kM, mallory)],
    signed := [(kA, send bob 5, "sigA"), (kM, send bob 5, "sigM")] }
def cfg : Cfg := { net := 1, chain := 1, root := 1, height := 1, fee := fun _ => 10 }
def st : State := { bal := fun a => if a = alice then 100 else 0 }
def ok (r : Except String (Addr × List Change)) : Bool := match r with | .ok _ => true | .error _ => false
end Demo

open Demo in
/-- the honest transaction is accepted, debits only Alice and credits Bob -/
example : applyTx env cfg st ⟨send bob 5, some (.single .secp256k1 kA), "sigA"⟩ [] =
    .ok (alice, [.debit alice 10, .pool 1 10, .debit alice 5, .credit bob 5]) := by decide

open Demo in
/-- the same content signed by Mallory's key: valid signature, unauthorized signer -/
example : applyTx env cfg st ⟨send bob 5, some (.single .secp256k1 kM), "sigM"⟩ [] = .error eUnauthorizedTx := by decide

open Demo in
/-- recipient or amount changed after signing: rejected although key and signature are Alice's -/
example : applyTx env cfg st ⟨send mallory 5, some (.single .secp256k1 kA), "sigA"⟩ [] = .error eInvalidSignature ∧
    applyTx env cfg st ⟨send bob 50, some (.single .secp256k1 kA), "sigA"⟩ [] = .error eInvalidSignature := by decide

namespace Demo
def kS : Bytes := [0xC]
def valAddr : Addr := List.replicate 20 4
/-- a delegate stake for the secp256k1 key `kS` with Alice as output address, signed by Alice -/
def stakeMsg (wire : Bool) : Msg :=
  { kind := .stake, pk := some (.single .secp256k1 kS), out := alice, amt := 40, delegate := true, wireSigner := wire, rest := "m3" }
def stake (wire : Bool) : Content :=
  { messageType := "stake", msg := some (stakeMsg wire), time := 7, createdHeight := 1, fee := 10, memo := "",
    networkId := 1, chainId := 1, nonce := 0 }
def senv : Env :=
  { addrs := [(kA, alice), (kS, valAddr)], signed := [(kA, stake false, "sigS"), (kA, stake true, "sigW")] }
end Demo

open Demo in
/-- stake signed by the output address: fee and stake are debited from the verified signer (Alice),
the validator is created at the address of the staked key; the same message carrying a `Signer` on the
wire is refused before any signature is looked at -/
example : applyTx senv cfg st ⟨stake false, some (.single .secp256k1 kA), "sigS"⟩ [] =
      .ok (alice, [.debit alice 10, .pool 1 10, .debit alice 40, .sys "supply", .sys "delegate", .valNew valAddr alice 40]) ∧
    applyTx senv cfg st ⟨stake true, some (.single .secp256k1 kA), "sigW"⟩ [] = .error eNotEmpty := by decide

namespace Demo
def m1 : Bytes := [1]
def m2 : Bytes := [2]
def m3 : Bytes := [3]
def msend : Content := { send bob 5 with msg := some { kind := .send, a := [9], to := bob, amt := 5, rest := "m2" } }
/-- members 1 and 2 signed; an aggregate exists for bitmap 110 and (wrongly claimed) none for 100 -/
def menv : Env :=
  { signed := [(m1, msend, "s1"), (m2, msend, "s2")], aggs := [("agg12", msend, [m1, m2, m3], [true, true, false]), ("s1", msend, [m1, m2, m3], [true, false, false])] }
end Demo

open Demo in
/-- 2-of-3: the aggregate of two members verifies, one member alone does not (threshold), and with
threshold 0 the same one-member aggregate does verify — as in the Go code -/
example : menv.verifies (.multi [m1, m2, m3] [true, true, false] 2) msend "agg12" = true ∧
    menv.verifies (.multi [m1, m2, m3] [true, false, false] 2) msend "s1" = false ∧
    menv.verifies (.multi [m1, m2, m3] [true, false, false] 0) msend "s1" = true ∧
    menv.WF := by
  refine ⟨by decide, by decide, by decide, ?_⟩
  intro sig c ks bits hmem k hk
  simp [menv] at hmem
  rcases hmem with ⟨rfl, rfl, rfl, rfl⟩ | ⟨rfl, rfl, rfl, rfl⟩
  · simp [enabled] at hk
    rcases hk with rfl | rfl
    · exact ⟨"s1", by simp [menv]⟩
    · exact ⟨"s2", by simp [menv]⟩
  · simp [enabled] at hk
    subst hk
    exact ⟨"s1", by simp [menv]⟩

end Canopy.C05
