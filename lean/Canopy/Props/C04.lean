import Canopy.Proof.LedgerPercents
/-!
# C04 — token supply conservation

Model: `Canopy.Model.Ledger` (M-ledger), a hand transcription of the canopy state machine's ledger code that is
replayed against the real `fsm.StateMachine` on every run (`harness/ledger`, `Driver/Ledger.lean`).

Statement proved here, for every ledger reachable from an accepted genesis through the modelled operations
(transactions of the kinds send / stake / editStake / unstake / pause / unpause / daoTransfer / subsidy /
changeParameter with fee deduction and faucet; the begin-block mint; slashing; certificate results for the node's
own chain with non-signer settlement, double signers and reward bookkeeping; committee retirement; end of block
with reward distribution, max-pause force-unstake and finished unstaking):

* `InvSupply`: the recorded total supply equals Σ accounts + Σ pools + Σ validator stakes **as natural numbers**
  and is below 2^64 (so no component is negative or wrapped);
* the total changes only by what the operation is allowed to mint (`Op.mintBound`: the scheduled block mint, a
  governance DAO transfer with `mint`, a faucet top-up) and by explicit burns (slashes, undistributed reward
  remainder); every other operation leaves it unchanged.

Explicit hypotheses (`Op.Safe`):
* `total + mint < 2^64` for the three minting operations. The code adds to `Supply.Total` and to pool balances
  WITHOUT a guard (`AddToTotalSupply`, `PoolAdd`): at the excluded point the recorded total wraps while the tokens
  are really created — `mint_wraps_at_excluded_point`, `f5_witness`; the Go oracle runs that point on the real code
  (scenarios `mint-wraps-total`, `dao-mint-wraps-total`, `faucet-mint-wraps-total`; known finding F5).
* a certificate awards at most 100 % of the reward pool of the node's chain (`paySum ≤ 100`; this is what
  `lib.CertificateResult.CheckBasic` enforces). It keeps `PercentsOK` (recorded percents ≤ 100 per certificate
  sample) invariant, which in turn makes the unguarded subtraction `pool − distributed` at the end of the block exact.
-/
namespace Canopy.C04
open Canopy.Ledger Canopy.Gen.LedgerFacts

/-! ## the model is pinned to the source it was transcribed from -/

/-- digest of every Go function body the model transcribes, as regenerated from `/repo` on this run; an edit to
any of them breaks this obligation until the model has been re-read against the new body -/
theorem handlers_pinned : handlerDigests = [
  ("StateMachine.SetAccount", "aa30910cacc2"),
  ("StateMachine.SetAccounts", "8250f91a8302"),
  ("StateMachine.AccountDeductFees", "182c2fd40108"),
  ("StateMachine.AccountAdd", "023f0267053d"),
  ("StateMachine.AccountSub", "bbb3ce698b58"),
  ("StateMachine.maybeFaucetTopUpForSendTx", "b3a42249979b"),
  ("StateMachine.AccountVestedAmount", "41bb470ca345"),
  ("StateMachine.AccountLockedAmount", "8f7a4d79f6e1"),
  ("StateMachine.AccountSpendableAmount", "6af3e457179b"),
  ("StateMachine.clearAccountVestingIfFullyVested", "dbffe92b89cc"),
  ("StateMachine.ValidateAccountAddWithVesting", "1bead3f5bf25"),
  ("StateMachine.AccountAddWithVesting", "f8cea19acb35"),
  ("MessageSend.Check", "f5fe216d4887"),
  ("MessageSubsidy.Check", "08cc30e3ca98"),
  ("checkChainId", "5e572255da53"),
  ("StateMachine.SetPool", "df1558b2f6f2"),
  ("StateMachine.SetPools", "e08e17744db9"),
  ("StateMachine.MintToPool", "ad7616eeff77"),
  ("StateMachine.MintToAccount", "f531bfb79a4f"),
  ("StateMachine.PoolAdd", "6b9a0f426ff5"),
  ("StateMachine.PoolSub", "1d3f87a82da5"),
  ("StateMachine.AddToTotalSupply", "c433ead76830"),
  ("StateMachine.AddToStakedSupply", "c66204145d36"),
  ("StateMachine.AddToDelegateSupply", "385a1e76e2db"),
  ("StateMachine.SubFromTotalSupply", "f6fff83045a9"),
  ("StateMachine.SubFromStakedSupply", "95b07dfa4c2a"),
  ("StateMachine.SubFromDelegateSupply", "4b78e72f74be"),
  ("StateMachine.addToSupplyPool", "88ed615e5c1f"),
  ("StateMachine.subFromSupplyPool", "e0b77122d7c9"),
  ("StateMachine.executeOnSupplyPool", "fdfb9a0fd822"),
  ("FilterAndSortPool", "070220438939"),
  ("StateMachine.SetValidators", "abf8f1c423a2"),
  ("StateMachine.UpdateValidatorStake", "715a7a0ce7ff"),
  ("StateMachine.DeleteValidator", "2bdab49292df"),
  ("StateMachine.SetValidatorUnstaking", "22cbfc897d61"),
  ("StateMachine.SetValidatorUnstakingIfBelowMinimum", "31b6d734c3f2"),
  ("StateMachine.DeleteFinishedUnstaking", "f1e064692622"),
  ("StateMachine.SetValidatorsPaused", "343f3f494a6b"),
  ("StateMachine.SetValidatorPaused", "c5503a555aca"),
  ("StateMachine.SetValidatorUnpaused", "71ef0d626b9a"),
  ("StateMachine.GetAuthorizedSignersForValidator", "2466f13b5004"),
  ("StateMachine.FundCommitteeRewardPools", "2f6f68aa0053"),
  ("StateMachine.GetBlockMintStats", "968a0025abfe"),
  ("StateMachine.GetSubsidizedCommittees", "a300ce323f7e"),
  ("StateMachine.DistributeCommitteeRewards", "22cb30bed7f7"),
  ("StateMachine.DistributeCommitteeReward", "3485dd896466"),
  ("StateMachine.UpdateCommittees", "9261c40fec65"),
  ("StateMachine.SetCommittees", "a65074d6aa8c"),
  ("StateMachine.DeleteCommittees", "e850733f4ceb"),
  ("StateMachine.SetCommitteeMember", "7e7cfb79feb2"),
  ("StateMachine.DeleteCommitteeMember", "0edc979faecb"),
  ("StateMachine.UpdateDelegations", "f6d1363d34e0"),
  ("StateMachine.SetDelegations", "7e862c00e2dc"),
  ("StateMachine.DeleteDelegations", "2edf05e54c9b"),
  ("StateMachine.UpsertCommitteeData", "33a17b3f3fc0"),
  ("StateMachine.HandleByzantine", "4ed960104864"),
  ("StateMachine.SlashAndResetNonSigners", "ebfcf1505026"),
  ("StateMachine.IncrementNonSigners", "9560b933a02f"),
  ("StateMachine.HandleDoubleSigners", "6b6bc652064f"),
  ("StateMachine.ForceUnstakeValidator", "3bf863763c24"),
  ("StateMachine.SlashValidators", "4cb281defc43"),
  ("StateMachine.SlashValidator", "5f74381612a2"),
  ("StateMachine.HandleMessageSend", "69e83b8e83ff"),
  ("StateMachine.HandleMessageStake", "6886a59ca6d8"),
  ("StateMachine.HandleMessageEditStake", "4e2f23761141"),
  ("StateMachine.HandleMessageUnstake", "8c13d11c8426"),
  ("StateMachine.HandleMessagePause", "b771bc4f83f7"),
  ("StateMachine.HandleMessageUnpause", "1c78bf69aa3b"),
  ("StateMachine.HandleMessageChangeParameter", "afb25c9e2eba"),
  ("StateMachine.HandleMessageDAOTransfer", "a0935a3afbd1"),
  ("StateMachine.HandleMessageSubsidy", "4bb8a7d59888"),
  ("StateMachine.GetFeeForMessageName", "92636215d936"),
  ("StateMachine.BeginBlock", "b42be48b7324"),
  ("StateMachine.EndBlock", "7676731668e5"),
  ("StateMachine.HandleCertificateResults", "7137d4c43f6e"),
  ("StateMachine.ForceUnstakeMaxPaused", "f251ecb3df76"),
  ("StateMachine.ApproveProposal", "d99fbf6490fd"),
  ("StateMachine.UpdateParam", "baf17e7eb666"),
  ("StateMachine.ConformStateToParamUpdate", "1d5b39285ae4"),
  ("StateMachine.IsFeatureEnabled", "cfbd79dae7ac"),
  ("ValidatorParams.Check", "b5c14ac1aa3c"),
  ("StateMachine.getParams", "c3db6b6c31e7"),
  ("StateMachine.setParams", "eb648b67f145"),
  ("StateMachine.NewStateFromGenesis", "5763878c29b7"),
  ("StateMachine.SetOrderBooks", "3cb6b86e1ec2"),
  ("StateMachine.ValidateGenesisState", "c043cbcf30d7"),
  ("StateMachine.ApplyTransaction", "0ba980da3e7f"),
  ("checkCommittees", "475aa0886a0a"),
  ("CommitteeData.Combine", "d317573307cd"),
  ("CommitteeData.addPercents", "e9dcb5396a82"),
  ("Uint64PercentageDiv", "a3c717b52c19"),
  ("Uint64ReducePercentage", "4449924d885f"),
  ("SafeMulDiv", "2b5d74b45126")] := by decide

/-! ## the invariant -/

instance (L : Ledger) : Decidable (InvSupply L) := by unfold InvSupply; exact inferInstance

/-- the invariant in plain terms -/
theorem invSupply_iff (L : Ledger) :
    InvSupply L ↔ (L.supply.total = NMap.total L.accounts + NMap.total L.pools + AMap.sumBy (·.stake) L.validators
      ∧ L.supply.total < 2 ^ 64) := Iff.rfl

/-- every single balance is below 2^64 when the invariant holds -/
theorem balances_below_2_64 {L : Ledger} (h : InvSupply L) (a : Addr) (id : Nat) :
    accGet L a < 2 ^ 64 ∧ poolGet L id < 2 ^ 64 ∧ ∀ v, valGet? L a = some v → v.stake < 2 ^ 64 := by
  obtain ⟨h1, h2⟩ := h
  have := accGet_le L a; have := poolGet_le L id
  refine ⟨by unfold bal at h1; unfold U64 at h2; omega, by unfold bal at h1; unfold U64 at h2; omega, ?_⟩
  intro v hv
  have := stake_le L a v hv
  unfold bal at h1; unfold U64 at h2; omega

/-! ## genesis -/

/-- a genesis accepted by the loader (`ValidateGenesisState` + `NewStateFromGenesis`, amounts being `uint64`)
satisfies the invariant -/
theorem inv_genesis {cfg : Config} {params : Params} {accounts : List (Addr × Nat)} {pools : List (Nat × Nat)}
    {vals : List GenesisValidator} {retired : List Nat} {books : List GenesisBook} {L : Ledger}
    (ha : ∀ e ∈ accounts, e.2 < 2 ^ 64) (hp : ∀ e ∈ pools, e.2 < 2 ^ 64) (hv : ∀ g ∈ vals, g.val.stake < 2 ^ 64)
    (ho : ∀ b ∈ books, ∀ x ∈ b.2, x < 2 ^ 64)
    (h : genesis cfg params accounts pools vals retired books = .ok L) : InvSupply L :=
  genesis_invSupply (fun e he => by have := ha e he; unfold MAXU; omega) (fun e he => by have := hp e he; unfold MAXU; omega)
    (fun g hg => by have := hv g hg; unfold MAXU; omega) (fun b hb x hx => by have := ho b hb x hx; unfold MAXU; omega) h

/-- the order of the state-writing steps of `NewStateFromGenesis`, as regenerated from the source on this run. The
model's `genesis` composes them in this order, and the order matters: `SetPools` OVERWRITES a listed pool (and counts
its amount), `SetOrderBooks` ADDS every open sell order's amount to the chain's escrow pool (and counts it) — so a
genesis that lists an escrow pool AND an order book for that chain (what `ExportState` produces) is only loaded
consistently with the pools first. -/
theorem genesis_steps_pinned : genesisSteps =
    ["SetParams", "SetAccounts", "SetPools", "SetValidators", "SetOrderBooks", "SetSupply", "SetRetiredCommittees"] := by decide

/-- why the order matters (seeded change pending4-C04, Go scenario `export-then-import`): an escrow pool listed with
200 tokens next to two open orders of 120 + 80 on chain 1. Pools first (the code): the pool holds 400, the total
counts 400. Order books first (`genesisBooksBeforePools`): the listed amount overwrites the credit, the pool holds 200,
the total still counts 400 — the supply identity is broken from the first block on. -/
theorem genesis_order_books_after_pools :
    ((genesis {} {} [] [(1 + escrowPoolAddend, 200)] [] [] [(1, [120, 80])]).toOption.map fun L => (L.pools, L.supply.total, decide (InvSupply L)))
      = some ([(1 + escrowPoolAddend, 400)], 400, true) ∧
    ((genesisBooksBeforePools {} {} [] [(1 + escrowPoolAddend, 200)] [] [] [(1, [120, 80])]).toOption.map fun L => (L.pools, L.supply.total, decide (InvSupply L)))
      = some ([(1 + escrowPoolAddend, 200)], 400, false) := by decide

/-- the loader rejects a genesis that lists an account twice (the hypothesis under which `inv_genesis` would fail
otherwise: the record is written once but counted twice) -/
example : (genesis {} {} [(1, 5), (1, 7)] [] [] []).toOption = none := by decide

/-! ## operations -/

/-- the operations the harness drives on the real state machine -/
inductive Op
  | tx (sender : Addr) (fee : Nat) (msg : Msg)
  | mint
  | slash (chain percent : Nat) (addrs : List Addr)
  | cert (height rootHeight : Nat) (members : List (Addr × Nat × Bool)) (doubleSigners : List (Addr × List Nat))
      (pay : List (Addr × Nat × Nat))
  | retire (chain : Nat)
  | endBlock

def Op.apply : Op → Ledger → M Ledger
  | .tx sender fee msg, L => applyTx L sender fee msg
  | .mint, L => beginBlockMint L
  | .slash chain percent addrs, L => slashValidators L chain percent addrs
  | .cert h rh mem ds pay, L => handleCertificateResults L h rh mem ds pay
  | .retire chain, L => .ok (retireCommittee L chain)
  | .endBlock, L => Canopy.Ledger.endBlock L

/-- the most an operation may add to the total supply: non-zero only for the scheduled block mint, a governance DAO
transfer with `mint`, and a faucet top-up -/
def Op.mintBound (L : Ledger) : Op → Nat
  | .tx sender fee msg => txMint L sender fee msg
  | .mint => scheduledMint L
  | _ => 0

/-- may the operation burn? only slashes (direct, or through certificate results) and the end-of-block reward
remainder -/
def Op.mayBurn : Op → Bool
  | .slash .. | .cert .. | .endBlock => true
  | _ => false

/-- the explicit hypotheses (see the module header) -/
def Op.Safe (L : Ledger) : Op → Prop
  | .cert _ _ _ _ pay => paySum L.cfg.chainId pay ≤ 100
  | op => L.supply.total + op.mintBound L < 2 ^ 64

/-- the invariant carried along a chain: the supply identity and the bound on the recorded reward percents -/
def Inv (L : Ledger) : Prop := InvSupply L ∧ PercentsOK L

/-- **C04, one operation.** If the invariant holds and the operation succeeds, the invariant holds afterwards and the
total changed by `minted − burned` with `minted ≤ mintBound` (0 unless the operation is one of the three minting
ones) and `burned = 0` unless the operation may burn. -/
theorem op_conserves {L L' : Ledger} {op : Op} (hinv : Inv L) (hs : op.Safe L) (h : op.apply L = .ok L') :
    Inv L' ∧ ∃ minted burned, minted ≤ op.mintBound L ∧ (op.mayBurn = false → burned = 0) ∧
      L'.supply.total + burned = L.supply.total + minted := by
  obtain ⟨hi, hp⟩ := hinv
  have hU : (2 : Nat) ^ 64 = U64 := by decide
  cases op with
  | tx sender fee msg =>
    have hm : L.supply.total + txMint L sender fee msg < U64 := by simpa [Op.Safe, Op.mintBound, hU] using hs
    have s := applyTx_step hi hm h
    have hlt : L'.supply.total < U64 := by have := s.1; omega
    exact ⟨⟨s.inv hi hlt, (keepCD_applyTx h).percents hp⟩, _, 0, Nat.le_refl _, fun _ => rfl, s.1⟩
  | mint =>
    have hm : L.supply.total + scheduledMint L < U64 := by simpa [Op.Safe, Op.mintBound, hU] using hs
    obtain ⟨m, hle, s⟩ := beginBlockMint_mints hi hm h
    have hlt : L'.supply.total < U64 := by have := s.1; omega
    have k : KeepCD L L' := (beginBlockMint_sameStaking h).ctx.committeesData
    exact ⟨⟨s.inv hi hlt, k.percents hp⟩, m, 0, hle, fun _ => rfl, s.1⟩
  | slash chain percent addrs =>
    obtain ⟨b, s⟩ := slashValidators_burns h
    exact ⟨⟨s.inv_of_le hi (Nat.zero_le _), (keepCD_slashValidators h).percents hp⟩, 0, b, Nat.zero_le _,
      fun hb => by simp [Op.mayBurn] at hb, s.1⟩
  | cert hh rh mem ds pay =>
    obtain ⟨b, s⟩ := handleCertificateResults_burns h
    exact ⟨⟨s.inv_of_le hi (Nat.zero_le _), handleCertificateResults_percents hp hs h⟩, 0, b, Nat.zero_le _,
      fun hb => by simp [Op.mayBurn] at hb, s.1⟩
  | retire chain =>
    obtain rfl := Except.ok.inj h
    have s : SameBal L (retireCommittee L chain) := by unfold retireCommittee; split <;> exact ⟨rfl, rfl, rfl, rfl⟩
    have k : KeepCD L (retireCommittee L chain) := by unfold retireCommittee KeepCD; split <;> rfl
    exact ⟨⟨s.moves.inv hi, k.percents hp⟩, 0, 0, Nat.zero_le _, fun _ => rfl, s.moves.1⟩
  | endBlock =>
    have h' : Canopy.Ledger.endBlock L = .ok L' := h
    obtain ⟨b, s⟩ := endBlock_burns hi hp h'
    exact ⟨⟨s.inv_of_le hi (Nat.zero_le _), endBlock_percents hi hp h'⟩, 0, b, Nat.zero_le _, fun hb => by simp [Op.mayBurn] at hb, s.1⟩

/-- non-vacuity: a send with a fee succeeds on a concrete ledger, moves 5 tokens, pays 2 into the reward pool and
leaves the total at 100 -/
example :
    let L : Ledger := { accounts := [(7, 100)], supply := { total := 100 }, params := { sendFee := 2 } }
    ((Op.tx 7 2 (.send 7 9 5)).apply L).toOption.map (fun L' => (L'.accounts, L'.pools, L'.supply.total))
      = some ([(7, 93), (9, 5)], [(1, 2)], 100) := by decide

/-- ledgers reachable from `L₀` by successful, `Safe` operations -/
inductive Reachable (L₀ : Ledger) : Ledger → Prop
  | base : Reachable L₀ L₀
  | step {L L' : Ledger} (op : Op) : Reachable L₀ L → op.Safe L → op.apply L = .ok L' → Reachable L₀ L'

/-- **C04, every history.** The invariant holds on every ledger reachable from one that satisfies it. -/
theorem inv_reachable {L₀ L : Ledger} (h0 : Inv L₀) (hr : Reachable L₀ L) : Inv L := by
  induction hr with
  | base => exact h0
  | step op _ hs h ih => exact (op_conserves ih hs h).1

/-- … in particular from every accepted genesis: after any sequence of successful operations the recorded total is the
exact sum of all balances and stakes -/
theorem supply_conserved_from_genesis {cfg : Config} {params : Params} {accounts : List (Addr × Nat)} {pools : List (Nat × Nat)}
    {vals : List GenesisValidator} {retired : List Nat} {books : List GenesisBook} {L₀ L : Ledger}
    (ha : ∀ e ∈ accounts, e.2 < 2 ^ 64) (hp : ∀ e ∈ pools, e.2 < 2 ^ 64) (hv : ∀ g ∈ vals, g.val.stake < 2 ^ 64)
    (ho : ∀ b ∈ books, ∀ x ∈ b.2, x < 2 ^ 64)
    (hg : genesis cfg params accounts pools vals retired books = .ok L₀) (hr : Reachable L₀ L) : InvSupply L :=
  (inv_reachable ⟨inv_genesis ha hp hv ho hg, genesis_percentsOK hg⟩ hr).1

/-! ## F5: the excluded point -/

/-- `MintToPool` at `total + x ≥ 2^64`: the recorded total wraps, the pool really receives the tokens, and the
identity is off by exactly 2^64 (`AddToTotalSupply` has no overflow guard) -/
theorem mint_wraps_at_excluded_point {L : Ledger} {id x : Nat} (hi : InvSupply L) (hx : 2 ^ 64 ≤ L.supply.total + x)
    (hxlt : x < 2 ^ 64) (hp : poolGet L id + x < 2 ^ 64) :
    (mintToPool L id x).supply.total + 2 ^ 64 = bal (mintToPool L id x) := by
  have hU : (2 : Nat) ^ 64 = U64 := by decide
  rw [hU] at hx hxlt hp ⊢
  exact mintToPool_wraps hi hx hxlt hp

/-- concrete witness (the Go scenario `mint-wraps-total`): one account holding 2^64 − 1001, block mint of 80 000 000 at
height 2: the begin-block mint succeeds, the recorded total becomes 79 998 999 and no longer equals the sum -/
theorem f5_witness :
    let L : Ledger := { accounts := [(7, 18446744073709550615)], supply := { total := 18446744073709550615 }, height := 2 }
    InvSupply L ∧ ∃ L', beginBlockMint L = .ok L' ∧ L'.supply.total = 79998999 ∧ ¬ InvSupply L' := by
  refine ⟨by decide, _, rfl, by decide, by decide⟩

end Canopy.C04
