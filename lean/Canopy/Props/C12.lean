import Canopy.Proof.LedgerStakingOps
/-!
# C12 — staking bookkeeping stays consistent and the chain never wedges itself

Model: `Canopy.Model.Ledger` (M-ledger, shared with C04; replayed against the real `fsm.StateMachine` on every run).

`InvStaking L` (`Canopy.Proof.LedgerStaking`):
* `Tallies`: `Supply.Staked = Σ stake`, `Supply.DelegatedOnly = Σ stake of delegates`, and for every committee `c`
  `CommitteeStaked[c] = Σ stake over the records listing c`, `CommitteeDelegatedOnly[c]` the same over delegates;
* `Markers`: `(h, a) ∈ unstaking ↔ validator a exists ∧ unstakingHeight = h ≠ 0`, `(h, a) ∈ paused ↔ validator a
  exists ∧ maxPausedHeight = h ≠ 0`, and an unstaking validator is never paused;
* `WF`: no key stored twice.
-/
namespace Canopy.C12
open Canopy.Ledger

/-- the corpus scenario `f3-slashed-to-zero-while-unstaking`: stake 1, unstaking at height 5, a second validator -/
def f3Ledger : Ledger :=
  { height := 2
    validators := [(1, { stake := 1, committees := [1], delegate := false, compound := false, output := 1, unstakingHeight := 5 }),
                   (2, { stake := 1000000, committees := [1], delegate := false, compound := false, output := 2 })]
    unstaking := [((5, 1), ())]
    supply := { total := 1000001, staked := 1000001, committee := [(1, 1000001)] } }


/-! ## the chain never wedges itself

`Live L` (`Canopy.Proof.LedgerLive`) is the part of the invariants that end-of-block code relies on: the supply
identity (so that returning a stake to its output account cannot overflow), the four tallies (so that the guarded
subtractions of `DeleteValidator` succeed), no key stored twice, and every unstaking marker referring to an existing
validator unstaking at exactly that height. It follows from `InvSupply ∧ InvStaking`. -/

theorem live_of_invariants {L : Ledger} (hi : InvSupply L) (hs : InvStaking L) : Live L :=
  ⟨hi, hs.tallies, hs.wf.validators, ⟨hs.wf.committee, hs.wf.delegated⟩, hs.wf.unstaking,
   fun h a hb => (hs.markers.unstaking h a).1 hb⟩

/-- **never wedged, next block** (`_partial`: blocks with reward percents waiting to be distributed are not covered —
`NoPendingRewards`; the reward distribution itself is covered for the supply identity by C04).
Hypotheses besides the invariants: the halvening period is configured; the scheduled mint does not overflow the
recorded total (F5, see C04); the finish height of a forced unstake is not 0 mod 2^64. -/
theorem never_wedged_partial {L : Ledger} (hi : InvSupply L) (hs : InvStaking L)
    (hb : L.cfg.blocksPerHalvening ≠ 0) (hx : L.supply.total + scheduledMint L < 2 ^ 64)
    (hh : (L.height + L.params.unstakingBlocks) % 2 ^ 64 ≠ 0) (hr : NoPendingRewards L) :
    ∃ L', emptyBlock L = .ok L' ∧ L'.height = L.height + 1 ∧ Live L' := by
  have hU : (2 : Nat) ^ 64 = U64 := by decide
  rw [hU] at hx hh
  obtain ⟨L', h, l, e, _⟩ := emptyBlock_live (live_of_invariants hi hs) hb hx hh hr
  exact ⟨L', h, e, l⟩

/-- **never wedged, every future height** (`_partial` in the same sense): from a live ledger, `n` consecutive empty
blocks apply, for every `n` — in particular up to and beyond the largest pending unstaking / max-pause marker.
The arithmetic hypotheses bound the `n` scheduled mints and the heights reached. -/
theorem never_wedged_future_partial : ∀ (n : Nat) (L : Ledger), Live L → L.cfg.blocksPerHalvening ≠ 0 →
    L.supply.total + n * L.cfg.initialTokensPerBlock < 2 ^ 64 → 0 < L.height →
    L.height + n + L.params.unstakingBlocks < 2 ^ 64 → NoPendingRewards L → emptyBlocksOk n L = true
  | 0, _, _, _, _, _, _, _ => rfl
  | n + 1, L, hl, hb, hx, h0, hh, hr => by
    have hU : (2 : Nat) ^ 64 = U64 := by decide
    rw [hU] at hx hh
    have hm : scheduledMint L ≤ L.cfg.initialTokensPerBlock := Nat.div_le_self _ _
    have hx1 : L.supply.total + scheduledMint L < U64 := by
      have : (n + 1) * L.cfg.initialTokensPerBlock = n * L.cfg.initialTokensPerBlock + L.cfg.initialTokensPerBlock := Nat.succ_mul _ _
      omega
    have hh1 : (L.height + L.params.unstakingBlocks) % U64 ≠ 0 := by rw [Nat.mod_eq_of_lt (by omega)]; omega
    obtain ⟨L', h, l, e1, e2, e3, r, t⟩ := emptyBlock_live hl hb hx1 hh1 hr
    unfold emptyBlocksOk
    rw [h]
    refine never_wedged_future_partial n L' l (by rw [e3]; exact hb) ?_ (by omega) ?_ r
    · rw [hU, e3]
      have : (n + 1) * L.cfg.initialTokensPerBlock = n * L.cfg.initialTokensPerBlock + L.cfg.initialTokensPerBlock := Nat.succ_mul _ _
      omega
    · rw [hU, e1, e2]; omega


/-! ## `InvStaking` is preserved

Proved for the staking status operations and for the operation the recorded defect lived in; for the remaining
modelled operations (stake, edit-stake, non-zero slash, reward compounding, parameter-change conformance, genesis) the
tallies and the biconditionals are checked on the real code after every block by the oracle, and the operations are
in the correspondence run, but their preservation is not yet a theorem: `invStaking_preserved_partial`. -/

/-- the operations for which preservation of the whole `InvStaking` is a theorem -/
inductive StakingOp
  | stake (signer a : Addr) (amount : Nat) (committees : List Nat) (delegate compound : Bool) (output : Addr)
  | editStake (signer a : Addr) (amount : Nat) (committees : List Nat) (compound : Bool) (output : Addr)
  | unstake (a : Addr) | pause (a : Addr) | unpause (a : Addr)
  | slashToZero (a : Addr) (val : Validator) (chain percent : Nat)

def StakingOp.apply : StakingOp → Ledger → M Ledger
  | .stake s a x cs d c o, L => handleStake L s a x cs d c o
  | .editStake s a x cs c o, L => handleEditStake L s a x cs c o
  | .unstake a, L => handleUnstake L a
  | .pause a, L => handlePause L a
  | .unpause a, L => handleUnpause L a
  | .slashToZero a val chain percent, L => slashValidator L a val chain percent

/-- side conditions: deferred-action heights are not 0 mod 2^64; for the slash: it is applied to the validator's
current record and its stake rounds to zero -/
def StakingOp.Ok (L : Ledger) : StakingOp → Prop
  | .unstake _ => (L.height + L.params.unstakingBlocks) % 2 ^ 64 ≠ 0 ∧ (L.height + L.params.delegateUnstakingBlocks) % 2 ^ 64 ≠ 0
  | .pause _ => (L.height + L.params.maxPauseBlocks) % 2 ^ 64 ≠ 0
  | .slashToZero a val chain percent => valGet? L a = some val ∧
      ∀ p' cs' L0, slashScope L a val chain percent = some (p', cs', L0) → stakeAfterSlash val.stake p' = 0
  | _ => True

/-- **`InvStaking` is preserved** by stake, edit-stake (incl. the committee / delegation re-indexing and the tallies of
every committee), unstake, pause, unpause and by a slash that rounds the stake to zero. `_partial`: the non-zero
slash, reward compounding inside `EndBlock` (same `UpdateValidatorStake`, proved: `updateValidatorStake_inv`), the
parameter-change conformance and genesis are not yet lifted to this statement. -/
theorem invStaking_preserved_partial {L L' : Ledger} {op : StakingOp} (hi : InvSupply L) (hs : InvStaking L) (hok : op.Ok L)
    (h : op.apply L = .ok L') : InvStaking L' := by
  have hU : (2 : Nat) ^ 64 = U64 := by decide
  cases op with
  | stake s a x cs d c o => exact handleStake_inv' hs h
  | editStake s a x cs c o => exact handleEditStake_inv' hi hs h
  | unstake a => simp only [StakingOp.Ok, hU] at hok; exact handleUnstake_inv hs hok h
  | pause a => simp only [StakingOp.Ok, hU] at hok; exact handlePause_inv hs hok h
  | unpause a => exact handleUnpause_inv hs h
  | slashToZero a val chain percent => exact slashValidator_zero_inv hs hok.1 hok.2 h

/-- an end-of-block on a live ledger keeps the four tallies, the no-duplicate-keys facts and the soundness of the
unstaking markers (`Live`), see `never_wedged_partial` -/
theorem endBlock_keeps_live {L : Ledger} (hl : Live L) (hb : L.cfg.blocksPerHalvening ≠ 0)
    (hx : L.supply.total + scheduledMint L < 2 ^ 64) (hh : (L.height + L.params.unstakingBlocks) % 2 ^ 64 ≠ 0)
    (hr : NoPendingRewards L) : ∃ L', emptyBlock L = .ok L' ∧ Live L' := by
  have hU : (2 : Nat) ^ 64 = U64 := by decide
  rw [hU] at hx hh
  obtain ⟨L', h, l, _⟩ := emptyBlock_live hl hb hx hh hr
  exact ⟨L', h, l⟩

/-- non-vacuity: the executable versions of the invariant hold on the scenario ledger and an unstake succeeds on it -/
example : talliesB f3Ledger = true ∧ markersB f3Ledger = true ∧ (handleUnstake f3Ledger 2).toOption.isSome = true := by decide

/-! ## the defect that was repaired (F3, commit 6a62009) stays on record as a theorem about the model variant -/

/-- before the repair (`slashNoMarkerCleanup`): slashing validator 1 by 10 % rounds its stake to zero, the record is
deleted, the marker (5, 1) stays, and from then on the empty block at height 5 cannot be applied: the chain is wedged -/
theorem never_wedged_fails_without_marker_cleanup :
    ∃ L1, slashNoMarkerCleanup f3Ledger 1 { stake := 1, committees := [1], delegate := false, compound := false, output := 1, unstakingHeight := 5 } 1 10 = .ok L1 ∧
      valGet? L1 1 = none ∧ KSet.has L1.unstaking (5, 1) = true ∧
      emptyBlocksOk 3 L1 = true ∧ emptyBlocksOk 4 L1 = false := by
  refine ⟨_, rfl, by decide, by decide, by decide, by decide⟩

/-- after the repair (`slashValidator`, the current code): the marker goes with the record and every empty block up to
and beyond height 5 applies -/
theorem repaired_slash_does_not_wedge :
    ∃ L1, slashValidator f3Ledger 1 { stake := 1, committees := [1], delegate := false, compound := false, output := 1, unstakingHeight := 5 } 1 10 = .ok L1 ∧
      valGet? L1 1 = none ∧ KSet.has L1.unstaking (5, 1) = false ∧ markersB L1 = true ∧ talliesB L1 = true ∧
      emptyBlocksOk 6 L1 = true := by
  refine ⟨_, rfl, by decide, by decide, by decide, by decide, by decide⟩

end Canopy.C12
