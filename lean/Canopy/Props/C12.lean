import Canopy.Props.C04
import Canopy.Proof.LedgerDistinct
/-!
# C12 — staking bookkeeping stays consistent and the chain never wedges itself

Model: `Canopy.Model.Ledger` (M-ledger, shared with C04; replayed against the real `fsm.StateMachine` on every run).

`InvStaking L` (`Canopy.Proof.LedgerStaking`):
* `Tallies`: `Supply.Staked = Σ stake`, `Supply.DelegatedOnly = Σ stake of delegates`, and for every committee `c`
  `CommitteeStaked[c] = Σ stake over the records listing c`, `CommitteeDelegatedOnly[c]` the same over delegates;
* `Markers`: `(h, a) ∈ unstaking ↔ validator a exists ∧ unstakingHeight = h ≠ 0`, `(h, a) ∈ paused ↔ validator a
  exists ∧ maxPausedHeight = h ≠ 0`, and an unstaking validator is never paused;
* `WF`: no key stored twice.
-/
namespace Canopy.C12
open Canopy.Ledger

/-- the corpus scenario `f3-slashed-to-zero-while-unstaking`: stake 1, unstaking at height 5, a second validator -/
def f3Ledger : Ledger :=
  { height := 2
    validators := [(1, { stake := 1, committees := [1], delegate := false, compound := false, output := 1, unstakingHeight := 5 }),
                   (2, { stake := 1000000, committees := [1], delegate := false, compound := false, output := 2 })]
    unstaking := [((5, 1), ())]
    supply := { total := 1000001, staked := 1000001, committee := [(1, 1000001)] } }


/-! ## `InvStaking` is preserved by every modelled operation

The operations are those of C04 (`Canopy.C04.Op`): a transaction of any modelled kind (with faucet and fee deduction),
the begin-block mint, `SlashValidators` (any percent, validators and delegates, with the committee-scoped ejection),
`HandleCertificateResults` (non-signer settlement: pause + slash, double signers, reward bookkeeping), committee
retirement, and the full `EndBlock` (reward distribution with auto-compounding, max-pause force-unstake, finished
unstaking). Parameter changes include `ConformStateToParamUpdate` (forced unstake below a raised minimum, committee
trimming under a lowered `MaxCommittees`).

Hypotheses, besides those of C04 (`Op.Safe`: no unguarded mint overflow, certificate percents ≤ 100):
`HeightsOK L` — the three deferred-action heights `height + UnstakingBlocks`, `height + DelegateUnstakingBlocks`,
`height + MaxPauseBlocks` are not 0 modulo 2^64. The code computes them with an unguarded `+`, and uses height 0 as
"not unstaking / not paused": at the excluded point a validator would be filed under marker height 0 while its record
says "not unstaking". For a parameter change the same is required of the parameters it installs. -/

open Canopy.C04 (Op)

/-- the invariant carried along a chain for C12: the two clauses of C04, the staking bookkeeping, and
`CommitteesDistinct` — no validator lists a committee twice (the loader rejects such a genesis since 0262f16,
`checkCommittees` rejects such a stake / edit-stake message, the committee-scoped ejection and the rotation of
`ConformStateToParamUpdate` keep a duplicate-free list duplicate-free). The last clause is what bounds every
per-committee tally by the total stake; liveness of `EndBlock` needs it (see `never_wedged`). -/
def Inv (L : Ledger) : Prop := InvSupply L ∧ PercentsOK L ∧ InvStaking L ∧ CommitteesDistinct L

/-- the deferred-action heights under the parameters a governance transaction installs -/
def Op.HeightsAfter (L : Ledger) : Op → Prop
  | .tx _ _ (.changeParameter _ space key value _ _) => ∀ p, L.params.setUint space key value = .ok p → HeightsOK { L with params := p }
  | _ => True

/-- the explicit hypotheses of C12 -/
def Op.Safe (L : Ledger) (op : Op) : Prop := Canopy.C04.Op.Safe L op ∧ HeightsOK L ∧ Op.HeightsAfter L op

/-- **`InvStaking` is preserved by every modelled operation.** -/
theorem invStaking_preserved {L L' : Ledger} {op : Op} (hinv : Inv L) (hsafe : Op.Safe L op) (h : op.apply L = .ok L') :
    InvStaking L' := by
  obtain ⟨hi, hp, hs, _⟩ := hinv
  obtain ⟨h4, hh, ha⟩ := hsafe
  have hU : (2 : Nat) ^ 64 = U64 := by decide
  cases op with
  | tx sender fee msg =>
    have hm : L.supply.total + txMint L sender fee msg < U64 := by simpa [Canopy.C04.Op.Safe, Canopy.C04.Op.mintBound, hU] using h4
    refine applyTx_inv hi hs hh hm ?_ h
    intro sg sp k v s e p hmsg hpp
    subst hmsg
    exact ha p hpp
  | mint => exact hs.of_sameStaking (beginBlockMint_sameStaking h)
  | slash chain percent addrs => exact (slashValidators_inv hs hh h).1
  | cert qh rh mem ds pay => exact handleCertificateResults_inv hs hh h
  | retire chain =>
    obtain rfl := Except.ok.inj h
    unfold retireCommittee; split <;> exact hs.of_same rfl rfl rfl rfl rfl rfl rfl
  | endBlock => exact endBlock_inv hi hp hs hh.unstaking h

/-- **duplicate-free committee lists are preserved by every modelled operation** -/
theorem committeesDistinct_preserved {L L' : Ledger} {op : Op} (hinv : Inv L) (hsafe : Op.Safe L op) (h : op.apply L = .ok L') :
    CommitteesDistinct L' := by
  obtain ⟨hi, hp, hs, hc⟩ := hinv
  have hd := dupCommittees_zero_of hs.wf.validators hc
  refine committeesDistinct_of_zero ?_
  have le0 : ∀ {X : Ledger}, dupCommittees X ≤ dupCommittees L → dupCommittees X = 0 := fun hle => by omega
  cases op with
  | tx sender fee msg => exact le0 (applyTx_dup_le h)
  | mint => exact le0 (Nat.le_of_eq (dup_same (beginBlockMint_sameStaking h).validators))
  | slash chain percent addrs => exact le0 (slashValidators_dup_le h)
  | cert qh rh mem ds pay => exact le0 (handleCertificateResults_dup_le h)
  | retire chain =>
    obtain rfl := Except.ok.inj h
    refine le0 (Nat.le_of_eq (dup_same ?_))
    unfold retireCommittee; split <;> rfl
  | endBlock =>
    obtain ⟨L'', h', _, _, _, d, _⟩ := endBlock_ok_of hi hp hs hsafe.2.1.unstaking hd
    have h2 : Canopy.Ledger.endBlock L = .ok L' := h
    rw [h2] at h'
    obtain rfl := Except.ok.inj h'
    exact d

/-- the excluded point of `HeightsOK` (known findings C12:unstaking-marker-at-height-zero / paused-marker-at-height-zero;
Go scenarios `unstake-finish-height-wraps`, `pause-max-height-wraps`): with `UnstakingBlocks = 2^64 − height` an unstake
is accepted, files the validator under marker height 0 while its record says "not unstaking", `Markers` no longer
holds, and the same unstake is accepted again; with `MaxPauseBlocks = 2^64 − height` a pause is accepted and the
following unpause is rejected -/
theorem heightsOK_excluded_point :
    let v : Validator := { stake := 5, committees := [1], delegate := false, compound := false, output := 1 }
    let L : Ledger := { height := 2, params := { unstakingBlocks := 2 ^ 64 - 2, maxPauseBlocks := 2 ^ 64 - 2 }, validators := [(1, v)],
                        supply := { total := 5, staked := 5, committee := [(1, 5)] } }
    markersB L = true ∧ talliesB L = true ∧
    (∃ L', handleUnstake L 1 = .ok L' ∧ KSet.has L'.unstaking (0, 1) = true ∧ (valGet? L' 1).map (·.unstakingHeight) = some 0 ∧
      markersB L' = false ∧ (handleUnstake L' 1).toOption.isSome = true) ∧
    (∃ L', handlePause L 1 = .ok L' ∧ KSet.has L'.paused (0, 1) = true ∧ (valGet? L' 1).map (·.maxPausedHeight) = some 0 ∧
      markersB L' = false ∧ (handleUnpause L' 1).toOption.isSome = false) := by
  refine ⟨by decide, by decide, ⟨_, rfl, by decide, by decide, by decide, by decide⟩, ⟨_, rfl, by decide, by decide, by decide, by decide⟩⟩

/-- one operation keeps the whole C12 invariant (the two C04 clauses by `Canopy.C04.op_conserves`) -/
theorem op_preserves {L L' : Ledger} {op : Op} (hinv : Inv L) (hsafe : Op.Safe L op) (h : op.apply L = .ok L') : Inv L' :=
  have c4 := (Canopy.C04.op_conserves ⟨hinv.1, hinv.2.1⟩ hsafe.1 h).1
  ⟨c4.1, c4.2, invStaking_preserved hinv hsafe h, committeesDistinct_preserved hinv hsafe h⟩

/-- an accepted genesis satisfies `InvStaking` (amounts being `uint64`). The loader's duplicate rejection
(`ValidateGenesisState`, b164a5d; pinned by `genesis_rejects_duplicates`) is what makes the tallies start exact. -/
theorem invStaking_genesis {cfg : Config} {params : Params} {accounts : List (Addr × Nat)} {pools : List (Nat × Nat)}
    {vals : List GenesisValidator} {retired : List Nat} {books : List GenesisBook} {L : Ledger}
    (ha : ∀ e ∈ accounts, e.2 < 2 ^ 64) (hp : ∀ e ∈ pools, e.2 < 2 ^ 64) (hv : ∀ g ∈ vals, g.val.stake < 2 ^ 64)
    (ho : ∀ b ∈ books, ∀ x ∈ b.2, x < 2 ^ 64)
    (h : genesis cfg params accounts pools vals retired books = .ok L) : Inv L :=
  ⟨Canopy.C04.inv_genesis ha hp hv ho h, genesis_percentsOK h,
   genesis_invStaking (fun e he => by have := ha e he; unfold MAXU; omega) (fun e he => by have := hp e he; unfold MAXU; omega)
    (fun g hg => by have := hv g hg; unfold MAXU; omega) h, committeesDistinct_of_zero (genesis_dup_zero h)⟩

/-- ledgers reachable from `L₀` by successful, `Safe` operations -/
inductive Reachable (L₀ : Ledger) : Ledger → Prop
  | base : Reachable L₀ L₀
  | step {L L' : Ledger} (op : Op) : Reachable L₀ L → Op.Safe L op → op.apply L = .ok L' → Reachable L₀ L'

/-- **C12, every history.** The staking bookkeeping invariant (with the supply identity) holds on every ledger reachable
from one that satisfies it … -/
theorem inv_reachable {L₀ L : Ledger} (h0 : Inv L₀) (hr : Reachable L₀ L) : Inv L := by
  induction hr with
  | base => exact h0
  | step op _ hs h ih => exact op_preserves ih hs h

/-- … in particular from every accepted genesis -/
theorem invStaking_from_genesis {cfg : Config} {params : Params} {accounts : List (Addr × Nat)} {pools : List (Nat × Nat)}
    {vals : List GenesisValidator} {retired : List Nat} {books : List GenesisBook} {L₀ L : Ledger}
    (ha : ∀ e ∈ accounts, e.2 < 2 ^ 64) (hp : ∀ e ∈ pools, e.2 < 2 ^ 64) (hv : ∀ g ∈ vals, g.val.stake < 2 ^ 64)
    (ho : ∀ b ∈ books, ∀ x ∈ b.2, x < 2 ^ 64)
    (hg : genesis cfg params accounts pools vals retired books = .ok L₀) (hr : Reachable L₀ L) : InvStaking L :=
  (inv_reachable (invStaking_genesis ha hp hv ho hg) hr).2.2.1

/-- the loader's duplicate rejection as regenerated from the body of `ValidateGenesisState` on this run: which key of
each record list goes through a `DeDuplicator`, and the error returned on a repeat — the model returns the same ones -/
theorem genesis_dedup_pinned : Canopy.Gen.LedgerFacts.genesisDedup = [
    ("Validators", "lib.BytesToString(val.Address)", Err.invalidAddress.code),
    ("Validators[i].Committees", "committee", Err.invalidNumCommittees.code),
    ("Accounts", "lib.BytesToString(account.Address)", Err.invalidAddress.code),
    ("Pools", "pool.Id", Err.invalidChainId.code)] := by decide

/-- an accepted genesis lists no validator address, account address or pool id twice, and no validator lists a
committee twice -/
theorem genesis_accepts_only_distinct {cfg : Config} {params : Params} {accounts : List (Addr × Nat)} {pools : List (Nat × Nat)}
    {vals : List GenesisValidator} {retired : List Nat} {books : List GenesisBook} {L : Ledger} (h : genesis cfg params accounts pools vals retired books = .ok L) :
    (vals.map (·.addr)).Nodup ∧ (accounts.map (·.1)).Nodup ∧ (pools.map (·.1)).Nodup ∧ ∀ g ∈ vals, g.val.committees.Nodup := by
  unfold genesis at h
  split at h
  · exact absurd h (by intro h; cases h)
  · next hval =>
    unfold validateGenesis at hval
    split at hval
    · exact absurd hval (by intro h; cases h)
    · split at hval
      · exact absurd hval (by intro h; cases h)
      · split at hval
        · exact absurd hval (by intro h; cases h)
        · next hcv =>
          have hdv := (genesisValidatorsError_none _ _ hcv).2.1
          have hdc := (genesisValidatorsError_none _ _ hcv).2.2
          split at hval
          · exact absurd hval (by intro h; cases h)
          · next hda =>
            split at hval
            · exact absurd hval (by intro h; cases h)
            · next hdp =>
              exact ⟨hasDup_false_nodup _ (by simpa using hdv), hasDup_false_nodup _ (by simpa using hda),
                hasDup_false_nodup _ (by simpa using hdp), fun g hg => hasDup_false_nodup _ (hdc g hg)⟩

/-- the error identity an operation was rejected with -/
def _root_.Except.rejectedWith (r : M Ledger) : Option String := match r with | .error e => some e.code | .ok _ => none

/-- the loader rejects a genesis listing a validator, an account or a pool twice, or a validator listing a committee
twice, with the pinned errors -/
theorem genesis_rejects_duplicates :
    (genesis {} {} [] [] [{ addr := 3, val := { stake := 5, committees := [1, 1], delegate := false, compound := false, output := 3 } }] []).rejectedWith = some Canopy.Gen.LedgerFacts.errInvalidNumCommittees ∧
    (genesis {} {} [(1, 5), (1, 7)] [] [] []).rejectedWith = some Canopy.Gen.LedgerFacts.errInvalidAddress ∧
    (genesis {} {} [] [(9, 5), (9, 7)] [] []).rejectedWith = some Canopy.Gen.LedgerFacts.errInvalidChainId ∧
    (genesis {} {} [] [] [{ addr := 3, val := { stake := 5, committees := [1], delegate := false, compound := false, output := 3 } }, { addr := 3, val := { stake := 6, committees := [1], delegate := false, compound := false, output := 3 } }] []).rejectedWith = some Canopy.Gen.LedgerFacts.errInvalidAddress := by
  decide

/-! ## the chain never wedges itself

An empty block (begin-block mint, no transactions, `EndBlock` with reward distribution / auto-compounding, max-pause
force-unstake and finished unstaking) applies on EVERY ledger satisfying the invariant — with or without reward
percents waiting to be distributed — and the invariant holds again at the next height.

The clause `CommitteesDistinct` of the invariant is what makes this true: it bounds every per-committee tally by the
total stake, so that the GUARDED additions of `SetCommittees` / `SetDelegations` during auto-compounding cannot fail
(with a doubly listed committee and a stake near 2^63 they would, and `EndBlock` with them; before 0262f16 a genesis
could contain such a validator).

Hypotheses besides the invariant:
* the halvening period is configured (`BlocksPerHalvening ≠ 0`, else `GetBlockMintStats` divides by zero);
* the scheduled mint does not overflow the recorded total (F5, see C04);
* the finish height of a forced unstake is not 0 mod 2^64 (see `HeightsOK`). -/

theorem live_of_invariants {L : Ledger} (hi : InvSupply L) (hs : InvStaking L) : Live L :=
  ⟨hi, hs.tallies, hs.wf.validators, ⟨hs.wf.committee, hs.wf.delegated⟩, hs.wf.unstaking,
   fun h a hb => (hs.markers.unstaking h a).1 hb⟩

/-- **`EndBlock` succeeds** and keeps the invariant -/
theorem endBlock_succeeds {L : Ledger} (hinv : Inv L) (hh : (L.height + L.params.unstakingBlocks) % 2 ^ 64 ≠ 0) :
    ∃ L', endBlock L = .ok L' ∧ L'.height = L.height + 1 ∧ Inv L' := by
  have hU : (2 : Nat) ^ 64 = U64 := by decide
  rw [hU] at hh
  obtain ⟨hi, hp, hs, hc⟩ := hinv
  obtain ⟨L', h, i, p, s, d, e, _⟩ := endBlock_ok_of hi hp hs hh (dupCommittees_zero_of hs.wf.validators hc)
  exact ⟨L', h, e, i, p, s, committeesDistinct_of_zero d⟩

/-- **never wedged, next block** -/
theorem never_wedged {L : Ledger} (hinv : Inv L)
    (hb : L.cfg.blocksPerHalvening ≠ 0) (hx : L.supply.total + scheduledMint L < 2 ^ 64)
    (hh : (L.height + L.params.unstakingBlocks) % 2 ^ 64 ≠ 0) :
    ∃ L', emptyBlock L = .ok L' ∧ L'.height = L.height + 1 ∧ Inv L' := by
  have hU : (2 : Nat) ^ 64 = U64 := by decide
  rw [hU] at hx hh
  obtain ⟨hi, hp, hs, hc⟩ := hinv
  obtain ⟨L', h, i, p, s, d, e, _⟩ := emptyBlock_ok hi hp hs (dupCommittees_zero_of hs.wf.validators hc) hb hx hh
  exact ⟨L', h, e, i, p, s, committeesDistinct_of_zero d⟩

/-- **never wedged, every future height**: `n` consecutive empty blocks apply, for every `n` — in particular up to and
beyond the largest pending unstaking / max-pause marker. The arithmetic hypotheses bound the `n` scheduled mints and
the heights reached. -/
theorem never_wedged_future : ∀ (n : Nat) (L : Ledger), Inv L → L.cfg.blocksPerHalvening ≠ 0 →
    L.supply.total + n * L.cfg.initialTokensPerBlock < 2 ^ 64 → 0 < L.height →
    L.height + n + L.params.unstakingBlocks < 2 ^ 64 → emptyBlocksOk n L = true
  | 0, _, _, _, _, _, _ => rfl
  | n + 1, L, hinv, hb, hx, h0, hh => by
    have hU : (2 : Nat) ^ 64 = U64 := by decide
    rw [hU] at hx hh
    obtain ⟨hi, hp, hs, hc⟩ := hinv
    have hm : scheduledMint L ≤ L.cfg.initialTokensPerBlock := Nat.div_le_self _ _
    have hsm : (n + 1) * L.cfg.initialTokensPerBlock = n * L.cfg.initialTokensPerBlock + L.cfg.initialTokensPerBlock := Nat.succ_mul _ _
    have hx1 : L.supply.total + scheduledMint L < U64 := by omega
    have hh1 : (L.height + L.params.unstakingBlocks) % U64 ≠ 0 := by rw [Nat.mod_eq_of_lt (by omega)]; omega
    obtain ⟨L', h, i, p, s, d, e1, e2, e3, t⟩ := emptyBlock_ok hi hp hs (dupCommittees_zero_of hs.wf.validators hc) hb hx1 hh1
    unfold emptyBlocksOk
    rw [h]
    refine never_wedged_future n L' ⟨i, p, s, committeesDistinct_of_zero d⟩ (by rw [e3]; exact hb) ?_ (by omega) ?_
    · rw [hU, e3]; omega
    · rw [hU, e1, e2]; omega

/-- **never wedged, every reachable ledger**: after any sequence of successful modelled operations from an accepted
genesis, the next empty block applies and leaves the invariant in place -/
theorem never_wedged_from_genesis {cfg : Config} {params : Params} {accounts : List (Addr × Nat)} {pools : List (Nat × Nat)}
    {vals : List GenesisValidator} {retired : List Nat} {books : List GenesisBook} {L₀ L : Ledger}
    (ha : ∀ e ∈ accounts, e.2 < 2 ^ 64) (hp : ∀ e ∈ pools, e.2 < 2 ^ 64) (hv : ∀ g ∈ vals, g.val.stake < 2 ^ 64)
    (ho : ∀ b ∈ books, ∀ x ∈ b.2, x < 2 ^ 64)
    (hg : genesis cfg params accounts pools vals retired books = .ok L₀) (hr : Reachable L₀ L)
    (hb : L.cfg.blocksPerHalvening ≠ 0) (hx : L.supply.total + scheduledMint L < 2 ^ 64)
    (hh : (L.height + L.params.unstakingBlocks) % 2 ^ 64 ≠ 0) :
    ∃ L', emptyBlock L = .ok L' ∧ L'.height = L.height + 1 ∧ Inv L' :=
  never_wedged (inv_reachable (invStaking_genesis ha hp hv ho hg) hr) hb hx hh

/-- a ledger with reward percents waiting: validator 1 (auto-compounding) is paid 60 %, account 9 is paid 30 % of the
1000 tokens in the reward pool of chain 1 -/
def pendingLedger (committees : List Nat) (stake : Nat) : Ledger :=
  { height := 2, cfg := { blocksPerHalvening := 10, initialTokensPerBlock := 0 }
    validators := [(1, { stake := stake, committees := committees, delegate := false, compound := true, output := 1 })]
    pools := [(1, 1000)]
    committeesData := [{ chainId := 1, samples := 1, percents := [(1, 60), (9, 30)] }]
    supply := { total := stake + 1000, staked := stake, committee := [(1, stake * committees.count 1)] } }

/-- non-vacuity of `never_wedged` with pending rewards: the distribution runs (600 compounded, 240 = 30 % less the
20 % early-withdrawal penalty paid out, the rest burnt) and three more blocks apply -/
example : talliesB (pendingLedger [1] 5000) = true ∧ emptyBlocksOk 4 (pendingLedger [1] 5000) = true ∧
    ((emptyBlock (pendingLedger [1] 5000)).toOption.map fun L => (L.validators.map (·.2.stake), L.accounts, L.supply.committee))
      = some ([5600], [(9, 240)], [(1, 5600)]) := by decide

/-- why `CommitteesDistinct` is in the invariant: the same ledger with committee 1 listed twice and a stake of
2^63 − 1 satisfies the supply identity and the (per-entry) tallies, and its `EndBlock` FAILS — the guarded addition
of `SetCommittees` overflows while re-indexing the compounded stake. Such a validator could only come from a genesis
file; the loader rejects it since 0262f16 (`genesis_rejects_duplicates`). -/
theorem endBlock_fails_with_duplicate_committee :
    InvSupply (pendingLedger [1, 1] (2 ^ 63 - 1)) ∧ talliesB (pendingLedger [1, 1] (2 ^ 63 - 1)) = true ∧
    (endBlock (pendingLedger [1, 1] (2 ^ 63 - 1))).rejectedWith = some Canopy.Gen.LedgerFacts.errInvalidAmount ∧
    (endBlock (pendingLedger [1] (2 ^ 63 - 1))).rejectedWith = none := by decide

/-- non-vacuity: the executable versions of the invariant hold on the scenario ledger and an unstake succeeds on it -/
example : talliesB f3Ledger = true ∧ markersB f3Ledger = true ∧ (handleUnstake f3Ledger 2).toOption.isSome = true := by decide

/-! ## the defect that was repaired (F3, commit 6a62009) stays on record as a theorem about the model variant -/

/-- before the repair (`slashNoMarkerCleanup`): slashing validator 1 by 10 % rounds its stake to zero, the record is
deleted, the marker (5, 1) stays, and from then on the empty block at height 5 cannot be applied: the chain is wedged -/
theorem never_wedged_fails_without_marker_cleanup :
    ∃ L1, slashNoMarkerCleanup f3Ledger 1 { stake := 1, committees := [1], delegate := false, compound := false, output := 1, unstakingHeight := 5 } 1 10 = .ok L1 ∧
      valGet? L1 1 = none ∧ KSet.has L1.unstaking (5, 1) = true ∧
      emptyBlocksOk 3 L1 = true ∧ emptyBlocksOk 4 L1 = false := by
  refine ⟨_, rfl, by decide, by decide, by decide, by decide⟩

/-- after the repair (`slashValidator`, the current code): the marker goes with the record and every empty block up to
and beyond height 5 applies -/
theorem repaired_slash_does_not_wedge :
    ∃ L1, slashValidator f3Ledger 1 { stake := 1, committees := [1], delegate := false, compound := false, output := 1, unstakingHeight := 5 } 1 10 = .ok L1 ∧
      valGet? L1 1 = none ∧ KSet.has L1.unstaking (5, 1) = false ∧ markersB L1 = true ∧ talliesB L1 = true ∧
      emptyBlocksOk 6 L1 = true := by
  refine ⟨_, rfl, by decide, by decide, by decide, by decide, by decide⟩

end Canopy.C12
