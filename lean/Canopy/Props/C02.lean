import Canopy.Model.Gate
import Canopy.Gen.GateFacts
/-!
# C02 — finality gate: only a +2/3-certified, correctly bound block is ever committed

`Gate.admitQC` is the hand model of `controller.HandlePeerBlock` (non-sync) up to the call of
`CommitCertificate`; it is tied to the code by the correspondence run (real committees, real BLS
aggregate signatures, real `QuorumCertificate.Check` / `CheckProposalBasic`, deviations of every
field) and its threshold is the **generated** `Gen.Committee.minPowerFor23Maj`.
Signatures are symbolic: `sig.parts` is the multiset of individual signatures inside the aggregate;
an adversary can only put there signatures that exist (M-sig, DESIGN §5).
-/
namespace Canopy.C02
open Canopy Canopy.Gate

/-- everything the gate establishes before `CommitCertificate` is reached -/
structure Admitted (n : Node) (q : QC) : Prop where
  intro ::
  ex : ∃ hd ms blk res sig,
    q.header = some hd ∧ n.committeeAt hd.rootHeight = some ms ∧ q.block = some blk ∧
    q.results = some res ∧ q.signature = some sig ∧
    -- bound to this network, chain and the node's next height, in the commit-justifying phase
    hd.networkId = n.networkId ∧ hd.chainId = n.chainId ∧ hd.height = n.height ∧ blk.height = n.height ∧
    hd.phase = PRECOMMIT_VOTE ∧
    -- names exactly this block and these results
    q.blockHash.getD [] = blk.hashFromHeader ∧ q.resultsHash = some res.hash ∧
    -- the aggregate is exactly the selected committee members' signatures over this certificate's payload
    aggVerifies sig (ms.map (·.key)) ((selected sig.bitmap ms).map (·.key)) (payloadOf q hd) = true ∧
    -- and the selected members reach the threshold of the committee in force at the root height
    ¬ (signedPower sig.bitmap ms < Gen.Committee.minPowerFor23Maj (totalPower ms))

set_option maxHeartbeats 400000 in
/-- **admitQC_sound**: a commit verdict implies every clause of the property statement. -/
theorem admitQC_sound (n : Node) (q : QC) (h : admitQC n q = .commit) : Admitted n q := by
  unfold admitQC at h
  split at h; · contradiction
  rename_i hcb
  split at h; · contradiction
  rename_i hd hhd
  split at h; · contradiction
  rename_i ms hms
  split at h
  · contradiction
  · contradiction
  rename_i hq
  split at h; · contradiction
  rename_i hpb
  split at h; · contradiction
  rename_i hph
  -- unpack proposalBasic
  unfold proposalBasic at hpb
  split at hpb; · contradiction
  rename_i blk hblk
  repeat (split at hpb; · contradiction)
  rename_i h1 h2 h3 h3b h4 h5 h6 h7 h8 h9
  -- unpack qcCheck
  unfold qcCheck at hq
  rw [hcb, hhd] at hq
  simp only at hq
  split at hq; · contradiction
  split at hq; · contradiction
  rename_i hnet hchain
  rw [hblk] at hq
  simp only at hq
  split at hq; · contradiction
  split at hq; · contradiction
  unfold sigCheck at hq
  split at hq; · contradiction
  rename_i sig hsig
  repeat (split at hq; · contradiction)
  rename_i hv
  have hres : ∃ res, q.results = some res := by
    cases hr : q.results with
    | none => simp [hr] at h9
    | some r => exact ⟨r, rfl⟩
  obtain ⟨res, hres⟩ := hres
  -- results hash from checkBasic
  have hrh : q.resultsHash = some res.hash := by
    unfold checkBasic at hcb
    split at hcb; · contradiction
    rename_i hbody
    unfold checkBasicBody at hbody
    split at hbody; · contradiction
    rw [hhd] at hbody
    simp only at hbody
    split at hbody
    · rename_i rh hrh
      split at hbody; · contradiction
      split at hbody; · contradiction
      split at hbody; · contradiction
      rename_i heq
      rw [hres] at heq
      simp only at heq
      split at heq; · contradiction
      split at heq; · contradiction
      rename_i hne
      simp only [bne_iff_ne, ne_eq, Decidable.not_not] at hne
      rw [hrh, hne]
    · -- election-style certificate: results must be absent, contradiction with `hres`
      split at hbody; · contradiction
      split at hbody
      · contradiction
      · rename_i hh
        simp [hres] at hh
  have e5 : hd.height = blk.height := by
    simpa only [bne_iff_ne, ne_eq, Decidable.not_not] using h5
  have e6 : blk.height = n.height := by
    apply UInt64.toNat_inj.mp
    rw [gt_iff_lt, UInt64.lt_iff_toNat_lt] at h6
    rw [UInt64.lt_iff_toNat_lt] at h7
    omega
  refine ⟨⟨hd, ms, blk, res, sig, hhd, hms, hblk, hres, hsig, ?_, ?_, e5.trans e6, e6, ?_, ?_, hrh, ?_, ?_⟩⟩
  · simp only [bne_iff_ne, ne_eq, Decidable.not_not] at hnet; exact hnet.symm
  · simp only [bne_iff_ne, ne_eq, Decidable.not_not] at hchain; exact hchain.symm
  · simpa only [bne_iff_ne, ne_eq, Decidable.not_not] using hph
  · simpa only [bne_iff_ne, ne_eq, Decidable.not_not] using h8
  · simpa using hv
  · simp only [Except.ok.injEq, decide_eq_false_iff_not] at hq
    exact hq

/-! ## the code's gate has the shape the model transcribes -/

/-- `controller.HandlePeerBlock` (normalised, logging dropped) performs, in this order and before
`CommitCertificate`: `CheckBasic`; committee lookup at the certificate's root height; `Check` against
this network and chain; the partial-certificate rejection; `CheckProposalBasic` at the node's height;
the PRECOMMIT_VOTE test. `Gate.admitQC` follows exactly this sequence. -/
theorem handlePeerBlock_shape : Gen.GateFacts.handlePeerBlock = [
  "qc := msg.BlockAndCertificate",
  "if err := qc.CheckBasic(); err != nil {",
  "  return nil, err",
  "}",
  "if syncing {…fast-sync checkpoint branch…}",
  "if !syncing || qc.Header.Height % CheckpointFrequency == 0 {",
  "  v, err := c.Consensus.LoadCommittee(c.LoadRootChainId(qc.Header.Height), qc.Header.RootHeight)",
  "  if err != nil {",
  "    return nil, err",
  "  }",
  "  isPartialQC, err := qc.Check(v, c.LoadMaxBlockSize(), &lib.View{NetworkId: c.Config.NetworkID, ChainId: c.Config.ChainId}, false)",
  "  if err != nil {",
  "    return nil, err",
  "  }",
  "  if isPartialQC {",
  "    return nil, lib.ErrNoMaj23()",
  "  }",
  "  if !syncing {",
  "  }",
  "}",
  "block, err := qc.CheckProposalBasic(c.FSM.Height(), c.Config.NetworkID, c.Config.ChainId)",
  "if err == nil && qc.Header.Phase != lib.Phase_PRECOMMIT_VOTE {",
  "  return nil, lib.ErrWrongPhase()",
  "}",
  "if err != nil {",
  "  return nil, err",
  "}",
  "result := c.Consensus.BlockResult",
  "if result == nil || result.BlockHeader == nil || !bytes.Equal(result.BlockHeader.Hash, block.BlockHeader.Hash) {",
  "  result = nil",
  "}",
  "if err = c.CommitCertificate(qc, block, result, msg.Time); err != nil {",
  "  return nil, err",
  "}",
  "return qc, nil"
] := rfl

/-! ## corollaries, one per attack named in the property -/

theorem mem_of_count_pos {α} [BEq α] [LawfulBEq α] (l : List α) (a : α) (h : 0 < l.count a) : a ∈ l :=
  List.count_pos_iff.mp h

/-- every selected committee member's individual signature over exactly this payload is inside the
aggregate (so, by M-sig, each of them signed exactly these bytes) -/
theorem signers_signed (sig : AggSig) (group keys : List KeyId) (p : Payload)
    (h : aggVerifies sig group keys p = true) : ∀ k ∈ keys, (k, p) ∈ sig.parts := by
  intro k hk
  simp only [aggVerifies, Bool.and_eq_true, List.all_eq_true, beq_iff_eq] at h
  have hc := h.2 k hk
  have : 0 < keys.count k := List.count_pos_iff.mpr hk
  exact List.count_pos_iff.mp (by omega)

/-- the threshold expression never evaluates to 0, for any total (even a wrapped one) -/
theorem maj_pos (T : UInt64) : 0 < Gen.Committee.minPowerFor23Maj T := by
  simp only [Gen.Committee.minPowerFor23Maj]
  rw [UInt64.lt_iff_toNat_lt, UInt64.toNat_add, UInt64.toNat_div]
  have : (2 * T).toNat < 2 ^ 64 := (2 * T).toNat_lt
  simp
  omega

theorem signedPower_nil_selection (bm : List Bool) (ms : List Member) (h : selected bm ms = []) :
    signedPower bm ms = 0 := by simp [signedPower, h]

/-- **partial**: signed power below the threshold never commits -/
theorem partial_rejected (n : Node) (q : QC) (hd : View) (ms : List Member) (sig : AggSig)
    (h1 : q.header = some hd) (h2 : n.committeeAt hd.rootHeight = some ms) (h3 : q.signature = some sig)
    (hp : signedPower sig.bitmap ms < Gen.Committee.minPowerFor23Maj (totalPower ms)) :
    admitQC n q ≠ .commit := by
  intro h
  obtain ⟨hd', ms', _, _, sig', e1, e2, _, _, e5, _, _, _, _, _, _, _, _, hq⟩ := (admitQC_sound n q h).ex
  rw [h1] at e1; cases e1
  rw [h2] at e2; cases e2
  rw [h3] at e5; cases e5
  exact hq hp

/-- **re-targeted / forged**: if the signatures that exist (the parts an adversary can aggregate) are
all over a payload `p₀` different from this certificate's payload, nothing commits — whatever single-
or multi-field change was made to header (height, round, phase, root height, network, chain), block
hash, results hash or proposer key -/
theorem retargeted_rejected (n : Node) (q : QC) (hd : View) (sig : AggSig) (p₀ : Payload)
    (h1 : q.header = some hd) (h3 : q.signature = some sig)
    (hall : ∀ x ∈ sig.parts, x.2 = p₀) (hne : payloadOf q hd ≠ p₀) :
    admitQC n q ≠ .commit := by
  intro h
  obtain ⟨hd', ms, _, _, sig', e1, _, _, _, e5, _, _, _, _, _, _, _, hagg, hq⟩ := (admitQC_sound n q h).ex
  rw [h1] at e1; cases e1
  rw [h3] at e5; cases e5
  -- the selection is non-empty, otherwise the signed power is 0 < threshold
  cases hsel : selected sig.bitmap ms with
  | nil => exact hq (by rw [signedPower_nil_selection _ _ hsel]; exact maj_pos _)
  | cons m rest =>
    have := signers_signed sig _ _ _ hagg m.key (by simp [hsel])
    exact hne (hall _ this)

/-- the payload determines every bound field: two certificates with the same payload agree on
header, block hash, results hash and proposer key -/
theorem payload_binds (q q' : QC) (h h' : View) (e : payloadOf q h = payloadOf q' h') :
    h = h' ∧ q.blockHash.getD [] = q'.blockHash.getD [] ∧
    q.resultsHash.getD [] = q'.resultsHash.getD [] ∧ q.proposerKey.getD [] = q'.proposerKey.getD [] := by
  simp only [payloadOf, Payload.mk.injEq] at e
  exact e

/-- **padding bits**: bits at indices ≥ committee size never select anybody, hence never add power -/
theorem padding_ignored (bm pad : List Bool) (ms : List Member) (h : ms.length ≤ bm.length) :
    selected (bm ++ pad) ms = selected bm ms := by
  simp only [selected]
  congr 1
  induction ms generalizing bm with
  | nil => simp
  | cons m ms ih =>
    cases bm with
    | nil => simp at h
    | cons b bm =>
      simp only [List.cons_append, List.zip_cons_cons, List.cons.injEq, true_and]
      exact ih bm (by simpa using h)

/-- **other committee**: the committee whose power is counted is the one in force at the
certificate's own root height, as recorded by the node -/
theorem committee_is_at_root_height (n : Node) (q : QC) (h : admitQC n q = .commit) :
    ∃ hd ms, q.header = some hd ∧ n.committeeAt hd.rootHeight = some ms := by
  obtain ⟨hd, ms, _, _, _, e1, e2, _⟩ := (admitQC_sound n q h).ex
  exact ⟨hd, ms, e1, e2⟩

/-! ## the threshold in exact arithmetic -/

def powerNat (ms : List Member) : Nat := (ms.map (·.power.toNat)).sum

theorem foldl_power (ms : List Member) : ∀ (acc : UInt64), acc.toNat + powerNat ms < 2 ^ 64 →
    (ms.foldl (fun acc m => acc + m.power) acc).toNat = acc.toNat + powerNat ms := by
  induction ms with
  | nil => intro acc _; simp [powerNat]
  | cons v vs ih =>
    intro acc hacc
    have hcons : powerNat (v :: vs) = v.power.toNat + powerNat vs := by simp [powerNat]
    rw [hcons] at hacc
    have hadd : (acc + v.power).toNat = acc.toNat + v.power.toNat := by
      rw [UInt64.toNat_add]; omega
    rw [List.foldl_cons, ih (acc + v.power) (by rw [hadd]; omega), hadd, hcons]
    omega

theorem selected_power_le (bm : List Bool) (ms : List Member) :
    powerNat (selected bm ms) ≤ powerNat ms := by
  induction ms generalizing bm with
  | nil => simp [selected, powerNat]
  | cons m ms ih =>
    cases bm with
    | nil => simp [selected, powerNat]
    | cons b bm =>
      have := ih bm
      cases b
      · simp only [selected, powerNat, List.zip_cons_cons, List.filterMap_cons, Bool.false_eq_true, ↓reduceIte,
          List.map_cons, List.sum_cons] at this ⊢
        omega
      · simp only [selected, powerNat, List.zip_cons_cons, List.filterMap_cons, ↓reduceIte,
          List.map_cons, List.sum_cons] at this ⊢
        omega

/-- **quorum**: whenever twice the committee's total power fits 64 bits (always, while the token supply
is below 2^63), a commit verdict means the selected signers hold at least ⌊2T/3⌋+1 of the real total -/
theorem quorum_exact (n : Node) (q : QC) (h : admitQC n q = .commit) :
    ∃ hd ms sig, q.header = some hd ∧ n.committeeAt hd.rootHeight = some ms ∧ q.signature = some sig ∧
      (2 * powerNat ms < 2 ^ 64 → powerNat (selected sig.bitmap ms) ≥ 2 * powerNat ms / 3 + 1) := by
  obtain ⟨hd, ms, _, _, sig, e1, e2, _, _, e5, _, _, _, _, _, _, _, _, hq⟩ := (admitQC_sound n q h).ex
  refine ⟨hd, ms, sig, e1, e2, e5, ?_⟩
  intro hfit
  have hT : (totalPower ms).toNat = powerNat ms := by
    have := foldl_power ms 0 (by simp; omega)
    simpa [totalPower] using this
  have hS : (signedPower sig.bitmap ms).toNat = powerNat (selected sig.bitmap ms) := by
    have hle := selected_power_le sig.bitmap ms
    have := foldl_power (selected sig.bitmap ms) 0 (by simp; omega)
    simpa [signedPower] using this
  have hmaj : (Gen.Committee.minPowerFor23Maj (totalPower ms)).toNat = 2 * powerNat ms / 3 + 1 := by
    simp only [Gen.Committee.minPowerFor23Maj]
    have h2 : (2 * totalPower ms).toNat = 2 * powerNat ms := by
      rw [UInt64.toNat_mul, hT]; simp; omega
    have h3 : ((2 * totalPower ms) / 3).toNat = 2 * powerNat ms / 3 := by
      rw [UInt64.toNat_div, h2]; rfl
    rw [UInt64.toNat_add, h3]
    simp; omega
  rw [UInt64.lt_iff_toNat_lt, hS, hmaj] at hq
  omega

/-! ## non-vacuity: a message that is admitted, and its one-unit-short neighbour that is not -/

def exView : View := { height := 7, round := 0, phase := PRECOMMIT_VOTE, rootHeight := 3, networkId := 1, chainId := 2 }
def exMembers : List Member := [⟨[1], 10⟩, ⟨[2], 10⟩, ⟨[3], 10⟩, ⟨[4], 10⟩]
def h32 (b : UInt8) : Bytes := List.replicate 32 b
def exBlock : BlockInfo := { decodes := true, headerOK := true, lastQCNetOK := true, lastQCChainOK := true, networkId := 1, height := 7, hashFromBytes := h32 9, hashFromHeader := h32 9, txsSize := 10, size := 100 }
def exPayload : Payload := { header := exView, blockHash := h32 9, resultsHash := h32 8, proposerKey := [] }
def exSig (bm : List Bool) (signers : List KeyId) : AggSig :=
  { lenOK := true, parts := signers.map (·, exPayload), group := exMembers.map (·.key), bitmap := bm }
def exQC (sig : AggSig) : QC := { header := some exView, blockHash := some (h32 9), resultsHash := some (h32 8), proposerKey := none, block := some exBlock, results := some ⟨true, h32 8⟩, signature := some sig }
def exNode : Node := { height := 7, networkId := 1, chainId := 2, maxBlockSize := 1000, globalMaxBlockSize := 100000, committeeAt := fun r => if r == 3 then some exMembers else none }

/-- 3 of 4 equal members (30 ≥ ⌊80/3⌋+1 = 27): committed -/
example : admitQC exNode (exQC (exSig [true, true, true, false, false, false, false, false] [[1], [2], [3]])) = .commit := by
  rfl
/-- 2 of 4 (20 < 27): partial, rejected with ErrNoMaj23 -/
example : admitQC exNode (exQC (exSig [true, true, false, false, false, false, false, false] [[1], [2]])) =
    .reject Gen.Err.lib.ErrNoMaj23 := by rfl
/-- 2 real signers + padding bits set: still partial (padding adds nothing) -/
example : admitQC exNode (exQC (exSig [true, true, false, false, true, true, true, true] [[1], [2]])) =
    .reject Gen.Err.lib.ErrNoMaj23 := by rfl
/-- bitmap claims 3 signers but only 2 signatures are inside the aggregate: invalid aggregate -/
example : admitQC exNode (exQC (exSig [true, true, true, false, false, false, false, false] [[1], [2]])) =
    .reject Gen.Err.lib.ErrInvalidAggrSignature := by rfl

end Canopy.C02
