import Canopy.Model.SmtProof
import Canopy.Proof.SmtProofSound
import Canopy.Proof.SmtHistory
import Canopy.Gen.SmtFacts
/-!
# C16 — Merkle proofs: complete for true statements, unforgeable for false ones, never crashing

Model: `Canopy/Model/SmtProof.lean`.
* `prove H4 t k` is `GetMerkleProof` on the tree `t` of `Canopy/Model/Smt.lean`.
* `verifyFixed H H4 n key value membership root proof` is `VerifyProof` **as the code has it** (since commit 9904ec4):
  key validation, hash fold, and the statement is accepted only if the traversal towards the key provably ends at
  `proof[0]`. Outcomes: `accept | reject | errInvalidProof | errReserved`.
* `storeProofTree written read n committed` is the tree `Store.NewReadOnly(v)` serves proofs from (since commit 28c6f9a the
  prefix it opens is the one `Root()` / `Commit()` write).
* `V.verify` is `VerifyProof` as it was BEFORE the repair (throw-away tree, node cache, cached key lengths, unbounded
  re-traversal; outcomes additionally `crash _ | hang`). It stays as the model of the pre-fix code.
`Driver/C16.lean` runs, against the real code on every check, whichever of the two verifiers `facts` finds in
store/smt.go, and `storeProofTree` on the two prefixes `facts` reads off store/store.go (`Gen/SmtFacts.lean`).

## Live obligations — about the code that exists

* `source_validates_total_bits`, `source_checks_value_length`  generated facts: `validNodeKey` bounds the total key bits by
                                   the tree's key length, and `VerifyProof` validates value lengths (the verifier that
                                   exists is `verifyFixed true`)
* `source_is_repaired`, `store_reads_written_prefix`, `readonly_builds_fresh_tree`  generated facts: store/smt.go has the
                                   key-validating algorithm, `NewReadOnly` opens the prefix `Root()` writes, on a fresh tree. **Reverting either fix breaks these.**
* `fixed_sound`          for every key length, tree, key, value and EVERY proof (honest, for another key, truncated,
                         re-ordered, bit-flipped, malformed): an accepted statement is true — under the explicit hash
                         hypothesis `H4Inj H4` (never an axiom)
* `fixed_complete`       the proof `GetMerkleProof` produces verifies for the true statement about its key
* `store_complete`       …also at store level: the tree `NewReadOnly(v)` serves proofs from is the committed one
* `fixed_never_crashes`  no crash and no hang outcome
* KNOWN FINDING (last section): `sibling_pair_resplit_accepted`, `not_sound_with_unframed_hash_even_with_fixed_value_lengths`
  — the code is not sound with its unframed node hash; `fixed_sound_partial` is what does hold of the real hash (trees
  without a re-splittable node), `empty16_not_resplittable` / `pairTree_is_resplittable` show both regions are inhabited
* `fixed_rejects_witnesses`, `strict_rejects_resplit`  the corpus scenarios below are rejected
* the hypothesis `H4Inj` of `fixed_sound` is load-bearing and stays explicit: `resplit_forgery_accepted`,
  `not_sound_with_unframed_hash` (pre-value-check model, real unframed node hash, [`C16:forged-proof-accepted-as-nonmembership`]),
  `resplit_one_node_impossible`, `fixed_lengths_do_not_make_concatenation_injective`

## Part A — theorems about the PRE-FIX model (permanent corpus; each replayed on the real code by
`harness/c16/witness.go`, which must now stay silent; oracle signatures in brackets)

* `sound_fails_foreign_nonmembership`, `not_sound_before_fix`   [`C16:foreign-proof-accepted-as-nonmembership`]
* `sound_fails_foreign_membership`                              [`C16:foreign-proof-accepted-as-membership`]
* `crashes_on_honest_proof_for_other_key`, `crashes_on_malformed_proof`, `not_never_crashes_before_fix`  [`C16:verifyproof-panic`]
* `store_prefix_mismatch_serves_empty_tree`, `store_complete_fails_witness`   [`C16:readonly-store-proof-prefix`]
* `complete_own_bounded` — what did hold before the fix (bounded)
-/
namespace Canopy.Smt
open Trie V

/-! ## the statements -/

/-- Soundness of a verifier `vf` for key length `n`: whenever it accepts a statement against the root of a canonical
tree holding `S`, the statement is true of `S`. -/
def Sound (vf : Bytes → Bytes → Bool → Bytes → List PNode → Verdict) (H : Bytes → Bytes)
    (H4 : Bytes → Bytes → Bytes → Bytes → Bytes) (n : Nat) : Prop :=
  ∀ (t : Trie) (S : KMap) (userKey value : Bytes) (membership : Bool) (proof : List PNode),
    t.Rep n S → S.HasSentinels n →
    vf userKey value membership (t.value H4) proof = .accept →
    if membership then S (keyOfBytes n (H userKey)) = some (H value) else S (keyOfBytes n (H userKey)) = none

/-- Totality in the sense of the property: no input makes the verifier panic or spin. -/
def NeverCrashes (vf : Bytes → Bytes → Bool → Bytes → List PNode → Verdict) : Prop :=
  ∀ userKey value membership root proof, (∀ w, vf userKey value membership root proof ≠ .crash w) ∧
    vf userKey value membership root proof ≠ .hang

/-! ## Part A — the code as it was before the repair (commits 9904ec4, 28c6f9a) -/

/-- an injective toy hash (the identity): the defects below do not come from hash collisions -/
def idH (b : Bytes) : Bytes := b

/-- 4-bit keys `x = 0..15`; the user key `[16*x]` "hashes" to `x`; the value stored is `[x]` -/
def k4 (x : Nat) : Key := [x / 8 % 2 == 1, x / 4 % 2 == 1, x / 2 % 2 == 1, x % 2 == 1]
def uk4 (x : Nat) : Bytes := [UInt8.ofNat (x * 16)]
def tree4 (xs : List Nat) : Trie := xs.foldl (fun t x => insert (k4 x) [UInt8.ofNat x] t) (empty 4)
def root4 (xs : List Nat) : Bytes := (tree4 xs).value (h4 idH)

/-- **Soundness fails (non-membership).** State {0001, 1011}. The honest membership proof for 1011, offered as a proof
that 0001 is ABSENT, is accepted — 0001 is present. (The re-traversal walks into the sibling of 1011's path, which
was never reconstructed, and reads it as an empty divergence.) -/
theorem sound_fails_foreign_nonmembership :
    V.verify idH 4 (uk4 1) [] false (root4 [11, 1]) (prove (h4 idH) (tree4 [11, 1]) (k4 11)) = .accept
    ∧ (k4 1, [1]) ∈ (tree4 [11, 1]).toList := by decide +kernel

/-- **Soundness fails (membership).** State {0101 ↦ [5], 0110 ↦ [6]}. The honest proof for 0101, offered as a proof that
0110 holds the value [5], is accepted — 0110 holds [6]. (The value is compared with `proof[0]`, the traversal ended at
the sibling leaf.) -/
theorem sound_fails_foreign_membership :
    V.verify idH 4 (uk4 6) [5] true (root4 [5, 6]) (prove (h4 idH) (tree4 [5, 6]) (k4 5)) = .accept
    ∧ (k4 6, [6]) ∈ (tree4 [5, 6]).toList ∧ (k4 6, [5]) ∉ (tree4 [5, 6]).toList := by decide +kernel

theorem not_sound_before_fix : ¬ Sound (V.verify idH 4) idH (h4 idH) 4 := by
  intro h
  let ops : List Op := [.set (k4 11) [11], .set (k4 1) [1]]
  have hv : ∀ op ∈ ops, op.Valid 4 := by
    intro op hop
    simp only [ops, List.mem_cons, List.not_mem_nil, or_false] at hop
    rcases hop with rfl | rfl <;> simp [Op.Valid, k4]
  have hr := rep_run (n := 4) (by decide) ops (rep_empty (by decide)) (initMap_hasSentinels (by decide)) hv
  have ht : (empty 4).run ops = tree4 [11, 1] := by decide
  rw [ht] at hr
  have := h (tree4 [11, 1]) _ (uk4 1) [] false (prove (h4 idH) (tree4 [11, 1]) (k4 11)) hr.1 hr.2
    sound_fails_foreign_nonmembership.1
  have hk : keyOfBytes 4 (idH (uk4 1)) = k4 1 := by decide
  have hS : ((initMap 4).run ops) (k4 1) = some [1] := by decide
  simp only [hk, hS] at this
  cases this

/-- **It crashes on an honest proof paired with another key.** State {0001, 0100, 1011}; the honest proof for 1011 and the
present key 0001: the re-traversal reaches the reconstructed root a second time through a `nil` child key, with a stale
cached key length — `index out of range` in `(*key).totalBits`. -/
theorem crashes_on_honest_proof_for_other_key :
    V.verify idH 4 (uk4 1) [] false (root4 [4, 11, 1]) (prove (h4 idH) (tree4 [4, 11, 1]) (k4 11))
      = .crash .indexOutOfRange := by decide +kernel

/-- **It crashes on malformed proofs before the root is even compared**: an empty sibling key, or a one-byte key. -/
theorem crashes_on_malformed_proof :
    V.verify idH 4 (uk4 11) [11] true [] [⟨encodeKey (k4 11), [11], 0⟩, ⟨[], [], 0⟩] = .crash .indexOutOfRange
    ∧ V.verify idH 4 (uk4 11) [11] true [] [⟨[5], [11], 0⟩, ⟨encodeKey (k4 1), [], 0⟩] = .crash .indexOutOfRange := by
  decide +kernel

theorem not_never_crashes_before_fix : ¬ NeverCrashes (V.verify idH 4) := by
  intro h
  exact (h (uk4 1) [] false (root4 [4, 11, 1]) (prove (h4 idH) (tree4 [4, 11, 1]) (k4 11))).1 _
    crashes_on_honest_proof_for_other_key

/-- **Store level (pre-fix).** `Root()` wrote the commitment tree under `x/` (`stateCommitIDPrefix`) while
`NewReadOnly(v)` opened `c/` (`stateCommitmentPrefix`): with two different prefixes the read-only store serves proofs
from an empty tree, whatever was committed… -/
theorem store_prefix_mismatch_serves_empty_tree (n : Nat) (committed : Trie) :
    storeProofTree [2, 120, 47] [2, 99, 47] n committed = empty n := by
  simp [storeProofTree]

/-- …and the proof served from the empty tree for a present key does not verify against the root that was committed. -/
theorem store_complete_fails_witness :
    V.verify idH 4 (uk4 11) [11] true (root4 [11]) (prove (h4 idH) (empty 4) (k4 11)) = .reject
    ∧ (k4 11, [11]) ∈ (tree4 [11]).toList := by decide +kernel

/-- What did hold before the fix, bounded: over 3-bit keys (000, 111 and the root key 011 are reserved), for every subset of
{010, 101, 110} as the state and each of these keys, the honest proof verifies for the statement it was generated for
(membership if present, non-membership if absent). The unbounded statement is `fixed_complete`, for the code that exists. -/
def states3 : List (List Nat) := [[], [2], [5], [6], [2, 5], [2, 6], [5, 6], [2, 5, 6]]
def k3 (x : Nat) : Key := [x / 4 % 2 == 1, x / 2 % 2 == 1, x % 2 == 1]
def tree3 (xs : List Nat) : Trie := xs.foldl (fun t x => insert (k3 x) [UInt8.ofNat x] t) (empty 3)

theorem complete_own_bounded :
    ∀ xs ∈ states3, ∀ x ∈ [2, 5, 6],
      V.verify idH 3 [UInt8.ofNat (x * 32)] [UInt8.ofNat x] (xs.contains x) ((tree3 xs).value (h4 idH))
        (prove (h4 idH) (tree3 xs) (k3 x)) = .accept := by decide +kernel

/-! ## Live obligations — the code that exists -/

/-- **Tie to the source (generated on every run).** store/smt.go's `VerifyProof` is the key-validating algorithm modelled
by `verifyFixed`: it calls `validNodeKey` and neither builds an in-memory store nor re-traverses. Reverting commit 9904ec4
makes `facts` emit `false` here and this obligation fails. -/
theorem source_is_repaired : Gen.SmtFacts.verifyProofValidatesKeys = true := by decide

/-- **Tie to the source (generated on every run).** The prefix `Store.NewReadOnly(v)` opens its commitment tree on is the
prefix `Store.Root()` / `Commit()` write it under. Reverting commit 28c6f9a breaks this obligation. -/
theorem store_reads_written_prefix : Gen.SmtFacts.readOnlyReadsPrefix = Gen.SmtFacts.rootWritesPrefix := by decide

/-- **Tie to the source (generated on every run).** The `sc` field of the `&Store{…}` literal `Store.NewReadOnly(v)` returns
is a fresh `NewDefaultSMT(NewTxn(…))` over the database — never the live store's own `s.sc`, which between `Root()` and
`Commit()` is the speculative tree of the next, uncommitted block. -/
theorem readonly_builds_fresh_tree : Gen.SmtFacts.readOnlyBuildsFreshCommitment = true := by decide

/-- **Tie to the source (generated on every run, from both sites).** The prefix `Store.Root()` writes the commitment tree
under is among the prefixes `Store.Rollback(v)` prunes above `v`: the tree nodes of abandoned heights do not survive a
rollback. -/
theorem rollback_prunes_tree_prefix : Gen.SmtFacts.rootWritesPrefix ∈ Gen.SmtFacts.rollbackPrunedPrefixes := by decide

/-- after `Rollback(v)` the store continues from (and `NewReadOnly` serves) the tree committed for `v`, whatever the tip
of the abandoned fork was — depends on `rollback_prunes_tree_prefix` -/
theorem rollback_restores_target_tree (target tip : Trie) :
    rollbackTree Gen.SmtFacts.rollbackPrunedPrefixes Gen.SmtFacts.rootWritesPrefix target tip = target := by
  simp [rollbackTree, rollback_prunes_tree_prefix]

/-- the verifier rejects every corpus scenario of part A (and still accepts the honest statements) -/
theorem fixed_rejects_witnesses :
    verifyFixed false idH (h4 idH) 4 (uk4 1) [] false (root4 [11, 1]) (prove (h4 idH) (tree4 [11, 1]) (k4 11)) = .reject
    ∧ verifyFixed false idH (h4 idH) 4 (uk4 6) [5] true (root4 [5, 6]) (prove (h4 idH) (tree4 [5, 6]) (k4 5)) = .reject
    ∧ verifyFixed false idH (h4 idH) 4 (uk4 1) [] false (root4 [4, 11, 1]) (prove (h4 idH) (tree4 [4, 11, 1]) (k4 11)) = .reject
    ∧ verifyFixed false idH (h4 idH) 4 (uk4 11) [11] true [] [⟨encodeKey (k4 11), [11], 0⟩, ⟨[], [], 0⟩] = .errInvalidProof
    ∧ verifyFixed false idH (h4 idH) 4 (uk4 11) [11] true [] [⟨[5], [11], 0⟩, ⟨encodeKey (k4 1), [], 0⟩] = .errInvalidProof
    ∧ verifyFixed false idH (h4 idH) 4 (uk4 11) [11] true (root4 [4, 11, 1]) (prove (h4 idH) (tree4 [4, 11, 1]) (k4 11)) = .accept
    ∧ verifyFixed false idH (h4 idH) 4 (uk4 9) [] false (root4 [4, 11, 1]) (prove (h4 idH) (tree4 [4, 11, 1]) (k4 9)) = .accept := by
  decide +kernel

/-- **The verifier is sound** — for every key length, tree, key, value and EVERY proof (honest, for another key,
truncated, re-ordered, bit-flipped, malformed): an accepted statement is true. The only hypothesis beyond canonical form
is the hash idealisation, stated explicitly: `H4Inj H4`, the node hash is injective on its 4-tuple. NOTE: `H4Inj` is FALSE
for the node hash the code uses (`h4 H`, unframed concatenation), so this theorem is about adversaries that cannot re-split a
node's hash input; the real code is NOT sound (known finding, last section of this file; `fixed_sound_partial` is the
statement that holds of the real hash). -/
theorem fixed_sound (strict : Bool) (H : Bytes → Bytes) {H4 : Bytes → Bytes → Bytes → Bytes → Bytes} (hH : H4Inj H4)
    {n : Nat} (hn : 0 < n) : Sound (verifyFixed strict H H4 n) H H4 n := by
  intro t S userKey value membership proof hrep hs hacc
  exact verifyFixed_sound strict H H4 hH hn hrep hs userKey value membership proof hacc

/-- non-vacuity of `fixed_sound`: the hypothesis is satisfiable (by the framed node hash of Proof/SmtHash.lean), and with
it the verifier does accept honest proofs — the conclusion is not reached by never accepting. (The node hash the code
uses, `h4 H`, hashes an unframed concatenation and cannot itself be injective on 4-tuples; `H4Inj` is the idealisation
"collision-free and unambiguous on the tuples that occur", see C08.) -/
example : Sound (verifyFixed false idH framed4 4) idH framed4 4 ∧
    verifyFixed false idH framed4 4 (uk4 11) [11] true ((tree4 [4, 11, 1]).value framed4)
      (prove framed4 (tree4 [4, 11, 1]) (k4 11)) = .accept ∧
    verifyFixed false idH framed4 4 (uk4 1) [] false ((tree4 [4, 11, 1]).value framed4)
      (prove framed4 (tree4 [4, 11, 1]) (k4 11)) = .reject :=
  ⟨fixed_sound false idH H4Inj_satisfiable (by decide), by decide +kernel, by decide +kernel⟩

/-- **The verifier is complete at the tree level**: the proof `GetMerkleProof` produces for a non-reserved key
verifies against the root — membership with the stored value if the key is present, non-membership if it is absent.
(No hash hypothesis.) -/
theorem fixed_complete (strict : Bool) (H : Bytes → Bytes) (H4 : Bytes → Bytes → Bytes → Bytes → Bytes) {n : Nat}
    (hn : 0 < n) {t : Trie} {S : KMap}
    (h : t.Rep n S) (hs : S.HasSentinels n) (hz : strict = true → WellSized H4 n S) (userKey value : Bytes)
    (hres : keyOfBytes n (H userKey) ≠ rootKey n ∧ keyOfBytes n (H userKey) ≠ minKey n ∧
      keyOfBytes n (H userKey) ≠ maxKey n) :
    (S (keyOfBytes n (H userKey)) = some (H value) →
      verifyFixed strict H H4 n userKey value true (t.value H4) (prove H4 t (keyOfBytes n (H userKey))) = .accept) ∧
    (S (keyOfBytes n (H userKey)) = none →
      verifyFixed strict H H4 n userKey value false (t.value H4) (prove H4 t (keyOfBytes n (H userKey))) = .accept) :=
  verifyFixed_complete strict H H4 hn h hs hz userKey value hres

/-- **Store-level completeness**, with the prefixes the source has now: the tree `NewReadOnly(v)` serves proofs from is
the tree committed for `v` — whatever tree (`live`) the live store holds for its block in progress —, so the proof it serves for any non-reserved key verifies against the root committed for `v`
(production key length 160). -/
theorem store_complete (strict : Bool) (H : Bytes → Bytes) (H4 : Bytes → Bytes → Bytes → Bytes → Bytes) {committed : Trie}
    {S : KMap} (h : committed.Rep 160 S) (hs : S.HasSentinels 160) (hz : strict = true → WellSized H4 160 S)
    (userKey value : Bytes)
    (hres : keyOfBytes 160 (H userKey) ≠ rootKey 160 ∧ keyOfBytes 160 (H userKey) ≠ minKey 160 ∧
      keyOfBytes 160 (H userKey) ≠ maxKey 160)
    (live : Option Trie) (sameVersion : Bool) :
    let served := readOnlyServes Gen.SmtFacts.readOnlyBuildsFreshCommitment live sameVersion
      (storeProofTree Gen.SmtFacts.rootWritesPrefix Gen.SmtFacts.readOnlyReadsPrefix 160 committed)
    served = committed ∧
    (S (keyOfBytes 160 (H userKey)) = some (H value) →
      verifyFixed strict H H4 160 userKey value true (committed.value H4) (prove H4 served (keyOfBytes 160 (H userKey))) = .accept) ∧
    (S (keyOfBytes 160 (H userKey)) = none →
      verifyFixed strict H H4 160 userKey value false (committed.value H4) (prove H4 served (keyOfBytes 160 (H userKey))) = .accept) := by
  have hserved : storeProofTree Gen.SmtFacts.rootWritesPrefix Gen.SmtFacts.readOnlyReadsPrefix 160 committed = committed := by
    simp [storeProofTree, store_reads_written_prefix]
  have hro : ∀ t, readOnlyServes Gen.SmtFacts.readOnlyBuildsFreshCommitment live sameVersion t = t := by
    intro t; simp [readOnlyServes, readonly_builds_fresh_tree]
  simp only [hserved, hro]
  exact ⟨trivial, fixed_complete strict H H4 (by decide) h hs hz userKey value hres⟩

/-- the verifier is a total function without a crash or hang outcome -/
theorem fixed_never_crashes (strict : Bool) (H : Bytes → Bytes) (H4 : Bytes → Bytes → Bytes → Bytes → Bytes) (n : Nat) :
    NeverCrashes (verifyFixed strict H H4 n) := by
  intro uk v m root proof
  exact verifyFixed_no_crash strict H H4 n uk v m root proof

/-! ## The hash hypothesis is load-bearing: the unframed concatenation

`fixed_sound` assumes `H4Inj H4`. The node hash of the code is `h4 H` — `H` of the UNFRAMED concatenation
`lk ‖ lv ‖ rk ‖ rv` — for which `H4Inj` cannot hold (C08: `unframed_concatenation_ambiguous`). The gap is real: moving the
boundary between a proof node's key and value leaves every hash input byte-identical, and a re-split node can be another
well-formed key. -/

/-- **Tie to the source.** `validNodeKey` bounds the TOTAL number of bits of a proof-node key by the tree's key length
(`lastBits <= 8 && (size-2)*8+lastBits <= maxBits`, read off store/smt.go statement by statement): a key that swallowed
value bytes on the right (161..168 bits in the 160-bit tree) is not well formed. `verifyFixed` has exactly this bound
(`validNodeKey` of the model); weakening it in the source breaks this obligation. -/
theorem source_validates_total_bits : Gen.SmtFacts.validNodeKeyBoundsTotalBits = true := by decide

/-- **Tie to the source.** `VerifyProof` also validates the length of every proof node's value (`validNodeValue`: a hash,
or the 20-byte value of one of the two reserved leaves), i.e. the verifier that exists is `verifyFixed true`. Removing
the check from store/smt.go breaks this obligation (and the corpus `resplit-key-value-boundary` supplies the forged proof). -/
theorem source_checks_value_length : Gen.SmtFacts.verifyProofChecksValueLength = true := by decide

/-- **Tie to the source.** `validNodeValue` lets a value be hash-sized, or 20 bytes for EXACTLY the two reserved leaf keys
(byte equality with `minKey` / `maxKey`, read off store/smt.go statement by statement) — the rule `valueLenOk` of the model.
A looser test (e.g. a prefix comparison, which every all-zero / all-one key of any length passes) lets an inner node such as
"0" carry a 20-byte value and re-opens the re-split forgery; it breaks this obligation, and the corpus `length-resplit`
supplies the forged proof. -/
theorem source_value_rule_exact : Gen.SmtFacts.validNodeValueExactReservedKeys = true := by decide

/-- 24-bit keys, state {0x400103 ↦ [9]}: the honest membership proof of the key, with the boundary of `proof[0]` moved one
byte to the LEFT (`Key' = [0x40,0x01,0x03]` — the perfectly well-formed 12-bit key `0100 0000 0001` — and
`Value' = [0x06] ‖ value`), hashes to the same root and is accepted as a proof that the key is ABSENT.
[`C16:forged-proof-accepted-as-nonmembership`, corpus `resplit-key-value-boundary`] -/
def resplitKey : Bytes := [0x40, 0x01, 0x03]
def resplitTree : Trie := insert (keyOfBytes 24 resplitKey) [9] (empty 24)
def resplitForged : List PNode :=
  match prove (h4 idH) resplitTree (keyOfBytes 24 resplitKey) with
  | p0 :: rest => { p0 with key := p0.key.take 3, value := p0.key.drop 3 ++ p0.value } :: rest
  | [] => []

theorem resplit_forgery_accepted :
    verifyFixed false idH (h4 idH) 24 resplitKey [] false (resplitTree.value (h4 idH)) resplitForged = .accept
    ∧ (keyOfBytes 24 resplitKey, [9]) ∈ resplitTree.toList := by decide +kernel

/-- hence, WITHOUT the hash idealisation — with the node hash the code really uses — the verifier without the value-length
check is not sound -/
theorem not_sound_with_unframed_hash : ¬ Sound (verifyFixed false idH (h4 idH) 24) idH (h4 idH) 24 := by
  intro h
  let ops : List Op := [.set (keyOfBytes 24 resplitKey) [9]]
  have hv : ∀ op ∈ ops, op.Valid 24 := by
    intro op hop
    simp only [ops, List.mem_cons, List.not_mem_nil, or_false] at hop
    subst hop; exact keyOfBytes_length 24 _
  have hr := rep_run (n := 24) (by decide) ops (rep_empty (by decide)) (initMap_hasSentinels (by decide)) hv
  have ht : (empty 24).run ops = resplitTree := rfl
  rw [ht] at hr
  have := h resplitTree _ resplitKey [] false resplitForged hr.1 hr.2 resplit_forgery_accepted.1
  have hS : ((initMap 24).run ops) (keyOfBytes 24 (idH resplitKey)) = some [9] := by decide
  simp only [hS] at this
  cases this

/-- the value-length check (`strict = true`, the verifier that exists) rejects the re-split proof -/
theorem strict_rejects_resplit :
    verifyFixed true idH (h4 idH) 24 resplitKey [] false (resplitTree.value (h4 idH)) resplitForged = .errInvalidProof := by
  decide +kernel

/-- with values of fixed length the key/value boundary of ONE node cannot move: the bytes `key ‖ value` of a node with a
32-byte value determine the node -/
theorem resplit_one_node_impossible (p q : PNode) (hp : p.value.length = 32) (hq : q.value.length = 32)
    (h : p.key ++ p.value = q.key ++ q.value) : p.key = q.key ∧ p.value = q.value := by
  have hl : p.key.length = q.key.length := by
    have := congrArg List.length h
    simp only [List.length_append, hp, hq] at this
    omega
  exact List.append_inj h hl

/-- …but fixed value lengths and well-formed keys do NOT make the whole 4-field input `lk ‖ lv ‖ rk ‖ rv` uniquely
parseable (the boundary between the left value and the right key can still move when the bytes happen to be well-formed
keys), so `fixed_sound` keeps its explicit hypothesis `H4Inj` on the node hash: it is an idealisation of the tree's hashing
format, not something the verifier can enforce. Two different 4-tuples of valid 8-bit-tree fields with 32-byte values and
the same concatenation: -/
theorem fixed_lengths_do_not_make_concatenation_injective :
    let v : Bytes := 0 :: List.replicate 31 0
    let a : Bytes × Bytes × Bytes × Bytes := ([1, 0], v, [0, 0, 0], v)            -- keys "1" and "00000000 0"
    let b : Bytes × Bytes × Bytes × Bytes := ([1, 0, 0], v, [0, 0], v)            -- keys "00000001 0" and "0"
    a ≠ b ∧ a.1 ++ a.2.1 ++ a.2.2.1 ++ a.2.2.2 = b.1 ++ b.2.1 ++ b.2.2.1 ++ b.2.2.2
    ∧ validNodeKey 160 a.1 = true ∧ validNodeKey 160 a.2.2.1 = true
    ∧ validNodeKey 160 b.1 = true ∧ validNodeKey 160 b.2.2.1 = true := by decide

/-! ## KNOWN FINDING — the verifier that exists is NOT sound with the hash the code uses

`H4Inj` is FALSE for the real node hash `h4 H = H(lk ‖ lv ‖ rk ‖ rv)` whatever `H` is (the concatenation forgets where
the four fields end). `fixed_sound` therefore says: the verifier is sound against every adversary that cannot find a second
reading of a node's hash input — it does NOT say that the code is sound, and it is not: with fixed 32-byte values the
boundary of ONE node cannot move any more (`resplit_one_node_impossible`, repaired in 0bba88f), but shifting BOTH
boundaries of a sibling pair — `lk' = (lk‖lv)[:|lk|+d]`, `lv'` the next 32 bytes, `rk'` the next `|rk|-d` bytes, `rv'` the rest —
keeps values hash-sized and can leave both keys well formed. Presented as `[proof[0], sibling] ++ honest tail` such a pair
reaches the committed root and is accepted as a NON-membership proof for present keys. Closing it needs length-framed node
hashing (a change of every state root), not a verifier patch: recorded in known_findings.json as
`C16:forged-proof-accepted-as-nonmembership:sibling-pair-resplit` and reproduced on the real code by the corpus
`harness/c16/pairresplit.go` on every run. -/

/-- a toy hash with a 32-byte output (the first 32 bytes of the input, zero padded); the forged hash inputs below are
byte-IDENTICAL to the honest ones, so nothing here depends on its collisions -/
def padH (b : Bytes) : Bytes := (b ++ List.replicate 32 0).take 32

/-- 16-bit keys, state {0x4000 ↦ A…A, 0xFF80 ↦ B…B} (32-byte values) -/
def pairTree : Trie :=
  insert (keyOfBytes 16 (padH [0xFF, 0x80])) (padH (List.replicate 32 0xBB))
    (insert (keyOfBytes 16 (padH [0x40, 0x00])) (padH (List.replicate 32 0xAA)) (empty 16))

/-- the root's children `lk = "0"`, `rk = "111111111"` re-split by one byte: `lk' = [0,0,0]` (nine zero bits),
`rk' = [1,0]` (the key "1"), both values still 32 bytes -/
def pairForged : List PNode :=
  match pairTree with
  | .node _ l r =>
    let stream := encodeKey l.key ++ l.value (h4 padH) ++ (encodeKey r.key ++ r.value (h4 padH))
    [⟨stream.take 3, (stream.drop 3).take 32, 0⟩, ⟨(stream.drop 35).take 2, stream.drop 37, 1⟩]
  | .leaf _ _ => []

/-- **The model of the CURRENT verifier (strict value lengths, real unframed node hash) accepts a forged non-membership
proof for a present key**: the two-node proof above hashes to the committed root (same byte stream), both keys are well
formed, both values are 32 bytes, and it is accepted as "0x4000 is absent" although 0x4000 is in the state. -/
theorem sibling_pair_resplit_accepted :
    verifyFixed true padH (h4 padH) 16 [0x40, 0x00] [] false (pairTree.value (h4 padH)) pairForged = .accept
    ∧ (keyOfBytes 16 (padH [0x40, 0x00]), padH (List.replicate 32 0xAA)) ∈ pairTree.toList
    ∧ pairForged.all (fun p => p.value.length == 32) = true := by decide +kernel

theorem not_sound_with_unframed_hash_even_with_fixed_value_lengths :
    ¬ Sound (verifyFixed true padH (h4 padH) 16) padH (h4 padH) 16 := by
  intro h
  let ops : List Op := [.set (keyOfBytes 16 (padH [0x40, 0x00])) (padH (List.replicate 32 0xAA)),
    .set (keyOfBytes 16 (padH [0xFF, 0x80])) (padH (List.replicate 32 0xBB))]
  have hv : ∀ op ∈ ops, op.Valid 16 := by
    intro op hop
    simp only [ops, List.mem_cons, List.not_mem_nil, or_false] at hop
    rcases hop with rfl | rfl <;> exact keyOfBytes_length 16 _
  have hr := rep_run (n := 16) (by decide) ops (rep_empty (by decide)) (initMap_hasSentinels (by decide)) hv
  have ht : (empty 16).run ops = pairTree := rfl
  rw [ht] at hr
  have := h pairTree _ [0x40, 0x00] [] false pairForged hr.1 hr.2 sibling_pair_resplit_accepted.1
  have hS : ((initMap 16).run ops) (keyOfBytes 16 (padH [0x40, 0x00])) = some (padH (List.replicate 32 0xAA)) := by
    decide +kernel
  simp only [hS] at this
  cases this

/-- **What IS true of the code's hash** (`fixed_sound_partial`): for every tree that has no re-splittable node
(`NoResplittableNode`: no inner node's hash input `lk ‖ lv ‖ rk ‖ rv` has a second reading as well-formed key / 32-or-20-byte
value / well-formed key / 32-or-20-byte value — a decidable property of the tree alone), the strict verifier with the REAL
unframed node hash `h4 H` is sound against every proof. Hypotheses on `H`: 32-byte output, and no second preimage of the
hash inputs of the tree's own nodes (a fixed-length hash cannot be injective outright). The known finding is exactly the
complement: trees with a re-splittable node (`pairTree` is one). -/
theorem fixed_sound_partial (H : Bytes → Bytes) (hlen : ∀ x, (H x).length = 32)
    {n : Nat} (hn : 0 < n) {t : Trie} {S : KMap} (h : t.Rep n S) (hs : S.HasSentinels n)
    (hinj : ∀ g a b, Sub t (Trie.node g a b) → ∀ x,
      H (encodeKey a.key ++ a.value (h4 H) ++ (encodeKey b.key ++ b.value (h4 H))) = H x →
      encodeKey a.key ++ a.value (h4 H) ++ (encodeKey b.key ++ b.value (h4 H)) = x)
    (hno : NoResplittableNode n (h4 H) t)
    (userKey value : Bytes) (membership : Bool) (proof : List PNode)
    (hacc : verifyFixed true H (h4 H) n userKey value membership (t.value (h4 H)) proof = .accept) :
    if membership then S (keyOfBytes n (H userKey)) = some (H value) else S (keyOfBytes n (H userKey)) = none :=
  verifyFixed_sound_partial H hlen hn h hs hinj hno userKey value membership proof hacc

/-- non-vacuity of `fixed_sound_partial`: the tree of the empty state (16-bit keys) has no re-splittable node, for any hash -/
theorem empty16_not_resplittable (H4 : Bytes → Bytes → Bytes → Bytes → Bytes) : NoResplittableNode 16 H4 (empty 16) := by
  intro g a b hsub x y z w hok he
  rcases sub_empty hsub with e | e | e
  · simp only [empty, Trie.node.injEq] at e
    obtain ⟨_, rfl, rfl⟩ := e
    obtain ⟨hx, hz, hy, hw⟩ := hok
    have lx := validNodeKey_length hx
    have lz := validNodeKey_length hz
    have hlen := congrArg List.length he
    simp only [Trie.key, Trie.value, List.length_append] at hlen
    have h46 : (encodeKey (minKey 16)).length + minVal.length + ((encodeKey (maxKey 16)).length + maxVal.length) = 46 := by decide
    rw [h46] at hlen
    obtain ⟨cx, cy, cz, cw⟩ := cut4 he
    have hy20 : y.length = 20 := by omega
    have hw20 : w.length = 20 := by omega
    have hxz : x.length = 2 ∨ x.length = 3 ∨ x.length = 4 := by omega
    simp only [Trie.key, Trie.value] at cx cy cz cw ⊢
    rcases hxz with e | e | e
    · exfalso
      have ez : z.length = 4 := by omega
      rw [e, hy20, ez] at cz
      rw [cz] at hz
      revert hz; decide
    · have ez : z.length = 3 := by omega
      rw [e] at cx; rw [e, hy20] at cy; rw [e, hy20, ez] at cz cw
      rw [cx, cy, cz, cw]
      decide
    · exfalso
      rw [e] at cx
      rw [cx] at hx
      revert hx; decide
  · cases e
  · cases e
/-- the excluded region is not empty: the root of `pairTree` is re-splittable -/
theorem pairTree_is_resplittable : ¬ NoResplittableNode 16 (h4 padH) pairTree := by
  intro h
  have hnode : ∃ l r, pairTree = Trie.node [] l r ∧
      (encodeKey l.key ++ l.value (h4 padH) ++ (encodeKey r.key ++ r.value (h4 padH))).take 3 ≠ encodeKey l.key := by
    refine ⟨_, _, rfl, ?_⟩
    decide +kernel
  obtain ⟨l, r, ht, hne⟩ := hnode
  have hsub : Sub pairTree (Trie.node [] l r) := ht ▸ Sub.refl
  let stream := encodeKey l.key ++ l.value (h4 padH) ++ (encodeKey r.key ++ r.value (h4 padH))
  have hcut : stream = stream.take 3 ++ (stream.drop 3).take 32 ++ ((stream.drop 35).take 2 ++ stream.drop 37) := by
    have e1 : stream.drop 35 = (stream.drop 3).drop 32 := by rw [List.drop_drop]
    have e2 : stream.drop 37 = (stream.drop 35).drop 2 := by rw [List.drop_drop]
    rw [e2, List.take_append_drop, e1, List.append_assoc, List.take_append_drop, List.take_append_drop]
  have hok : TupleOk 16 (stream.take 3) ((stream.drop 3).take 32) ((stream.drop 35).take 2) (stream.drop 37) := by
    have : pairTree = Trie.node [] l r := ht
    subst_vars
    simp only [stream]
    injection ht with _ hl hr
    subst hl hr
    unfold TupleOk
    decide +kernel
  exact hne (h [] l r hsub _ _ _ _ hok hcut).1.symm

end Canopy.Smt
