import Canopy.Proof.SmtHash
import Canopy.Proof.SmtPar
import Canopy.Proof.SmtCache
import Canopy.Gen.SmtFacts
/-!
# C08 — the state root is a pure, collision-free function of the state

Model: `Canopy/Model/Smt.lean` (the sparse Merkle tree of `store/smt.go`). A state is a partial map
`S : Key → Option Bytes` (`KMap`) on `n`-bit keys holding the two sentinel leaves; `t.Rep n S` says that the
tree `t` is in canonical form (`Trie.WF n`) and holds exactly `S`. `insert` / `delete` are the algorithm
(`traverse` + `set` / `delete`), `commit` the sorted sequential batch (`SMT.Commit`), `Trie.root` the Go root
(SHA-256 over the encoded child keys and values), `Trie.value H4` the same with an abstract node hash.

What is proved here, for every key length `n > 0`, every tree and every history:

* `canonical_unique`       canonical form is a property: two canonical trees with the same contents are equal
* `insert_canonical`, `delete_canonical`   the algorithm's steps keep the tree canonical and act on the contents
                                            as map insert / erase
* `history_independence`   any two histories (any order, any batching, overwrites, insert-then-delete, …) that end
                           in the same map end in the same tree, hence in the same root (`root_history_independent`)
* `commit_total`           the sequential batch commit of valid operations never reaches the Go panic and is such a history
* `encodeKey_inj`          the node-key byte encoding (with its padding byte) is injective
* `root_injective`         different states give different roots — under the explicit hypothesis `H4Inj` that the
                           node hash is injective on 4-tuples (collision-freeness + unambiguity of the unframed
                           concatenation; a hypothesis, not an axiom; `H4Inj_satisfiable` shows it is consistent)

* `parallel_eq_sequential`  `CommitParallel` (14 synthetic borders in, eight workers each confined to the subtree below
                           its 3-bit prefix and taken in ANY order, borders out) returns exactly what the sequential
                           `Commit` returns, under `ParOK` (one valid operation per key, nothing reserved, no key equal
                           to a synthetic border); `root_is_pure` puts sequential, parallel and batching together

* `workers_receive_ascending_order`   the sort comparators of `Commit` and `sortOperationsByPrefix`, translated from their
                           closures, are the strict bitwise key order the model sorts by
* `copy_does_not_carry_commitment`, `clone_root_canonical`   `Store.Copy()` hands no cached commitment to the clone
                           (generated fact), so the clone's `Root()` is the canonical tree of the clone's own state
* `node_cache_coherent`, `node_cache_transparent`   the in-memory node cache of `setNode`/`getNode`/`delNode` (model
                           `Model/SmtCache.lean`, rules taken from generated facts) is coherent in every reachable state
                           for EVERY capacity: a cached entry is the store's latest node, a read through the cache is a
                           read from the store, and the store evolves as if there were no cache — so the tree algorithm
                           (which the theorems above are about) is unaffected by the cache and by `MaxCacheSize`;
                           `admit_only_below_capacity_incoherent` is the counterexample for the mutated admission rule

Not proved here (covered by the correspondence run only, see `checks/C08.py`): the L2 refinement (node table,
traversal stack, rehash-skipping) of `smt.go` to these L1 functions, and the goroutine level of `CommitParallel`
(the model's workers are functions on disjoint subtrees applied in an arbitrary order, not threads).
-/
namespace Canopy.Smt
open Trie

/-- Canonical form is unique: the tree is a function of the key/value set. -/
theorem canonical_unique {n : Nat} {t₁ t₂ : Trie} {S : KMap} (h₁ : t₁.Rep n S) (h₂ : t₂.Rep n S) : t₁ = t₂ :=
  rep_unique h₁ h₂

/-- `set()` keeps the tree canonical and inserts/overwrites exactly one binding. -/
theorem insert_canonical {n : Nat} {t : Trie} {S : KMap} {k : Key} {v : Bytes}
    (h : t.Rep n S) (hk : k.length = n) : (insert k v t).Rep n (S.set k v) :=
  rep_insert h hk

/-- `delete()` keeps the tree canonical and erases exactly one binding (a no-op for an absent key). -/
theorem delete_canonical {n : Nat} {p : Key} {l r : Trie} {S : KMap} (k : Key)
    (h : (Trie.node p l r).Rep n S) : (delete k (Trie.node p l r)).Rep n (S.erase k) :=
  rep_delete k h

/-- The tree after any history of valid operations is the canonical tree of the resulting map. -/
theorem run_canonical {n : Nat} (hn : 0 < n) {t : Trie} {S : KMap} (ops : List Op)
    (h : t.Rep n S) (hs : S.HasSentinels n) (hv : ∀ op ∈ ops, op.Valid n) :
    (t.run ops).Rep n (S.run ops) :=
  (rep_run hn ops h hs hv).1

/-- **History independence.** Two histories of sets, overwrites and deletes — whatever their order, length and
batch boundaries — that start from trees with the contents `S₁`, `S₂` and end in the same map end in the same
tree. -/
theorem history_independence {n : Nat} (hn : 0 < n) {t₁ t₂ : Trie} {S₁ S₂ : KMap} (ops₁ ops₂ : List Op)
    (h₁ : t₁.Rep n S₁) (h₂ : t₂.Rep n S₂) (hs₁ : S₁.HasSentinels n) (hs₂ : S₂.HasSentinels n)
    (hv₁ : ∀ op ∈ ops₁, op.Valid n) (hv₂ : ∀ op ∈ ops₂, op.Valid n)
    (hfinal : S₁.run ops₁ = S₂.run ops₂) : t₁.run ops₁ = t₂.run ops₂ :=
  rep_unique (run_canonical hn ops₁ h₁ hs₁ hv₁) (hfinal ▸ run_canonical hn ops₂ h₂ hs₂ hv₂)

/-- … in particular the same root, for the real SHA-256 root and for every abstract node hash. -/
theorem root_history_independent {n : Nat} (hn : 0 < n) (ops₁ ops₂ : List Op)
    (hv₁ : ∀ op ∈ ops₁, op.Valid n) (hv₂ : ∀ op ∈ ops₂, op.Valid n)
    (hfinal : (initMap n).run ops₁ = (initMap n).run ops₂) :
    ((empty n).run ops₁).root = ((empty n).run ops₂).root := by
  rw [history_independence hn ops₁ ops₂ (rep_empty hn) (rep_empty hn) (initMap_hasSentinels hn)
    (initMap_hasSentinels hn) hv₁ hv₂ hfinal]

/-- non-vacuity: insert-then-delete of one key and an overwrite, against a single insert (n = 3) -/
example :
    let a : Key := [false, true, false]
    let b : Key := [false, true, true]
    ((empty 3).run [.set a [1], .set b [2], .del a, .set b [3]]) = ((empty 3).run [.set b [3]])
    ∧ (empty 3).run [.set b [3]] ≠ empty 3 := by decide

/-- `SMT.Commit` of a batch of valid operations cannot reach the Go panic (`GrandParent()` of the root) and equals
the history "sorted batch applied left to right"; so batching is covered by `history_independence`. -/
theorem commit_total {n : Nat} (hn : 0 < n) {t : Trie} {S : KMap} {ops : List Op} (h : t.Rep n S)
    (hs : S.HasSentinels n) (hv : ∀ op ∈ ops, op.Valid n) :
    commit t ops = .ok (t.run (sortOps ops)) ∧ (t.run (sortOps ops)).Rep n (S.run (sortOps ops)) :=
  ⟨commit_eq_run hn h hs hv, run_canonical hn _ h hs (valid_sortOps hv)⟩

/-- the hypothesis of `commit_total` is needed: deleting a sentinel that hangs directly under the root is the Go
panic, reproduced by the model as `crash` (and by the correspondence run on the real code) -/
example : stepTop (empty 3) (.del (minKey 3)) = none ∧ runTop (empty 3) [.set [false, true, true] [7], .del (maxKey 3)] = none := by
  decide

/-- The node-key byte encoding (`key.bytes()`, including the padding byte) is injective on non-empty bit strings. -/
theorem encodeKey_inj {a b : Key} (ha : a ≠ []) (hb : b ≠ []) (h : encodeKey a = encodeKey b) : a = b :=
  encodeKey_injective ha hb h

/-- **Different states, different roots** — exactly as strong as the idealisation `H4Inj H4` of the node hash
(stated as a hypothesis): if two canonical trees have the same root value, they hold the same state.
HONESTY NOTE: `H4Inj` is FALSE for the node hash the code uses (`h4 H`: `H` of the unframed concatenation, see
`unframed_concatenation_ambiguous`), so this theorem is not a statement about SHA-256 alone. For ROOTS the gap is not known
to be exploitable: a second state with the same root would need leaves whose key bytes and value hashes ARE the re-split
bytes of some node's hash input, i.e. preimages of byte strings the adversary does not choose. For PROOFS it is exploitable,
because proof nodes carry raw key/value bytes: C16 known finding `sibling-pair-resplit`. -/
theorem root_injective {H4 : Bytes → Bytes → Bytes → Bytes → Bytes} (hH : H4Inj H4) {n : Nat} (hn : 0 < n)
    {t₁ t₂ : Trie} {S₁ S₂ : KMap} (h₁ : t₁.Rep n S₁) (h₂ : t₂.Rep n S₂)
    (hs₁ : S₁.HasSentinels n) (hs₂ : S₂.HasSentinels n)
    (hroot : t₁.value H4 = t₂.value H4) : S₁ = S₂ := by
  have hk : t₁.key = t₂.key := (top_key_nil h₁ hs₁ hn).trans (top_key_nil h₂ hs₂ hn).symm
  have := value_injective hH t₁ t₂ h₁.1 h₂.1 hk hroot
  subst this
  exact map_eq_of_rep h₁ h₂

/-- the root is a function of the state *and only of the state*: equal roots ⇔ equal states (for reachable trees) -/
theorem root_eq_iff {H4 : Bytes → Bytes → Bytes → Bytes → Bytes} (hH : H4Inj H4) {n : Nat} (hn : 0 < n)
    (ops₁ ops₂ : List Op) (hv₁ : ∀ op ∈ ops₁, op.Valid n) (hv₂ : ∀ op ∈ ops₂, op.Valid n) :
    ((empty n).run ops₁).value H4 = ((empty n).run ops₂).value H4 ↔ (initMap n).run ops₁ = (initMap n).run ops₂ := by
  have r₁ := rep_run hn ops₁ (rep_empty hn) (initMap_hasSentinels hn) hv₁
  have r₂ := rep_run hn ops₂ (rep_empty hn) (initMap_hasSentinels hn) hv₂
  constructor
  · exact root_injective hH hn r₁.1 r₂.1 r₁.2 r₂.2
  · intro h
    rw [history_independence hn ops₁ ops₂ (rep_empty hn) (rep_empty hn) (initMap_hasSentinels hn)
      (initMap_hasSentinels hn) hv₁ hv₂ h]

/-! ### the idealisation is consistent (non-vacuity of `root_injective`) -/

/-- a framed stand-in for the node hash (`framed4`, Proof/SmtHash.lean) satisfies the hypothesis -/
theorem H4Inj_consistent : H4Inj framed4 := H4Inj_satisfiable

/-- …whereas the *unframed* concatenation that `updateParentValue` hashes is ambiguous as a byte string: the
4-tuple is not recoverable from `lk ‖ lv ‖ rk ‖ rv`, so "different states ⇒ different roots" cannot be derived
from collision resistance of SHA-256 alone — it rests on the lengths of the fields as well. -/
theorem unframed_concatenation_ambiguous :
    ∃ a b c d a' b' c' d' : Bytes, (a, b, c, d) ≠ (a', b', c', d') ∧ a ++ b ++ c ++ d = a' ++ b' ++ c' ++ d' :=
  ⟨[1], [2], [], [], [1, 2], [], [], [], by decide, by decide⟩

/-! ### parallel commit -/

/-- **Parallel = sequential.** For every key length `n ≥ 4`, every canonical tree, every batch satisfying `ParOK` and every
order `sched` in which the eight workers are taken: `CommitParallel` = `Commit` — the same tree, hence the same root, no
error, no trace of the borders. -/
theorem parallel_eq_sequential {n : Nat} (hn : 4 ≤ n) {t : Trie} {S : KMap} {ops : List Op}
    (h : t.Rep n S) (hs : S.HasSentinels n) (ok : ParOK n S ops)
    (sched : List Nat) (hsched : ∀ i, i ∈ sched ↔ i < 8) :
    commitParallelWith sched n t ops = commit t ops ∧ commitParallel n t ops = commit t ops
    ∧ commitAuto n t ops = commit t ops := by
  have h1 := commitParallelWith_eq_commit hn h hs ok sched hsched
  have h2 : commitParallel n t ops = commit t ops :=
    commitParallelWith_eq_commit hn h hs ok (List.range 8) (fun i => List.mem_range)
  refine ⟨h1, h2, ?_⟩
  unfold commitAuto
  split
  · rfl
  · exact h2

/-- **Tie to the source: the order a batch is committed in.** The comparators of `sort.Slice` in `(*SMT).Commit` and in
`(*SMT).sortOperationsByPrefix` (the order in which each of the eight workers of `CommitParallel` receives its group) are
TRANSLATED from their closures on every run (`Gen.SmtFacts.sequentialSortLess`, `parallelSortLess`; the translator
accepts only the single statement `return X.cmp(Y) < 0`). Both are the strict bitwise key order — the very order the
model's `sortOps` sorts by (`keyLe`) — so every worker gets its group in ASCENDING key order. `parallel_eq_sequential`
itself does not need the order (at the level of the tree algorithm any order gives the same tree, by history
independence); the stored-node algorithm of smt.go does — `commit()` / `rehash()` skip re-hashing and keep the traversal
position on the assumption that the next target is not smaller — and that level is tied to the model by the
correspondence run (corpus `parallel-order-tie`: keys sharing 32..46 leading hash bits). A comparator with swapped operands,
or one that mis-orders ties of a fast path, fails this theorem (or leaves the translator's subset). -/
theorem workers_receive_ascending_order (a b : Key) (h : a.length = b.length) :
    Gen.SmtFacts.parallelSortLess keyCmp a b = (!keyLe b a)
    ∧ Gen.SmtFacts.sequentialSortLess keyCmp a b = (!keyLe b a) :=
  ⟨keyCmp_neg_iff a b h, keyCmp_neg_iff a b h⟩

/-- non-vacuity / sanity of the order: 0101 before 0110, not the other way round, and never a key before itself -/
example :
    Gen.SmtFacts.parallelSortLess keyCmp [false, true, false, true] [false, true, true, false] = true
    ∧ Gen.SmtFacts.parallelSortLess keyCmp [false, true, true, false] [false, true, false, true] = false
    ∧ Gen.SmtFacts.parallelSortLess keyCmp [false, true] [false, true] = false := by decide

/-- the hypotheses of `parallel_eq_sequential` are satisfiable by a non-trivial batch (n = 5; one set, one delete) -/
example : ParOK 5 (initMap 5) [.set [false, true, false, true, false] [1], .del [true, false, true, true, false]] := by
  refine ⟨?_, ?_, ?_, ?_, ?_, ?_⟩
  · intro op hop; simp at hop; rcases hop with rfl | rfl <;> simp [Op.Valid, minKey, maxKey]
  · intro op hop; simp at hop; rcases hop with rfl | rfl <;> rfl
  · intro op hop; simp at hop; rcases hop with rfl | rfl <;> simp [Op.key, minKey, maxKey, rootKey]
  · intro a ha b hb e
    simp at ha hb
    rcases ha with rfl | rfl <;> rcases hb with rfl | rfl <;> simp [Op.key] at e ⊢
  · intro op hop; simp at hop; rcases hop with rfl | rfl <;> decide
  · intro b hb
    have : b ∈ borders 5 → b ≠ minKey 5 ∧ b ≠ maxKey 5 := border_not_sentinel (by decide)
    have := this hb
    simp [initMap, this.1, this.2]

/-- **The root is a pure function of the state**, all clauses together: start from the trees of two stores with the same
contents, commit two *different* lists of batches — each batch sequentially or in parallel, workers in any order — and if the
resulting states are equal then so are the resulting trees and roots. (Stated for one batch on each side; longer
histories follow by iterating `commit_total`, which re-establishes `Rep`.) -/
theorem root_is_pure {n : Nat} (hn : 4 ≤ n) {t₁ t₂ : Trie} {S₁ S₂ : KMap} {ops₁ ops₂ : List Op}
    (h₁ : t₁.Rep n S₁) (h₂ : t₂.Rep n S₂) (hs₁ : S₁.HasSentinels n) (hs₂ : S₂.HasSentinels n)
    (ok₁ : ParOK n S₁ ops₁) (hv₂ : ∀ op ∈ ops₂, op.Valid n)
    (sched : List Nat) (hsched : ∀ i, i ∈ sched ↔ i < 8)
    (hfinal : S₁.run (sortOps ops₁) = S₂.run (sortOps ops₂)) :
    commitParallelWith sched n t₁ ops₁ = commit t₂ ops₂ := by
  rw [(parallel_eq_sequential hn h₁ hs₁ ok₁ sched hsched).1,
    (commit_total (by omega) h₁ hs₁ ok₁.valid).1, (commit_total (by omega) h₂ hs₂ hv₂).1,
    history_independence (by omega) _ _ h₁ h₂ hs₁ hs₂ (valid_sortOps ok₁.valid) (valid_sortOps hv₂) hfinal]

/-- `ParOK` is needed: a batch that sets a key equal to a synthetic border loses it in `CommitParallel` (reproduced on the
real code by the correspondence run at 8-bit keys; for 160-bit keys it takes a SHA-256 preimage of e.g. `0x20 00…00`). -/
example :
    let b : Key := borderLow 5 1
    (match stepTop ((empty 5).run ((borders 5).map fun x => Op.set x borderVal)) (.set b [9]) with
      | some t => ((borders 5).foldl (fun s x => delete x s) t).keys.contains b
      | none => true) = false := by decide

/-! ### what a leaf commits to -/

/-- **Tie to the source.** `valueOpToSMTNode` gives the leaf of every `set` the value `crypto.Hash(value)` (its only
assignment to the leaf value) under the key `newNodeKey(crypto.Hash(key), keyBitLength)` — also when the value already is
32 bytes long. The model's leaf value is `sha256 value` for every value (`Driver/Smt.lean: parseTok`), so the states
`{k ↦ w}` and `{k ↦ sha256 w}` are different states with different leaves. -/
theorem leaf_commits_to_hash_of_value : Gen.SmtFacts.leafCommitsToHashOfValue = true := by decide

/-! ### `Store.Copy()` -/

/-- **Tie to the source.** The composite literal of `Store.Copy()` does not set the clone's cached state-commitment object
`sc` (read off store/store.go by `facts` on every run): the clone starts without a computed root. -/
theorem copy_does_not_carry_commitment : Gen.SmtFacts.copyCarriesCommitment = false := by decide

/-- **The root of a clone is a function of the clone's own state**: whatever tree the source store had cached when
`Copy()` was taken, `Root()` of the clone is the canonical tree of (committed state updated by the clone's pending
operations) — it depends on `copy_does_not_carry_commitment`: a clone that inherited the cached object would answer with
the source's earlier tree (`storeRootTree` returns the cached tree when there is one). -/
theorem clone_root_canonical {n : Nat} (hn : 4 ≤ n) {base : Trie} {S : KMap} {pending : List Op}
    (sourceCached : Option Trie) (h : base.Rep n S) (hs : S.HasSentinels n) (ok : ParOK n S pending) :
    ∃ t, storeRootTree n (copyCached Gen.SmtFacts.copyCarriesCommitment sourceCached) base pending = .ok t
      ∧ t.Rep n (S.run (sortOps pending)) := by
  have hc : copyCached Gen.SmtFacts.copyCarriesCommitment sourceCached = none := by
    simp [copyCached, copy_does_not_carry_commitment]
  rw [hc]
  refine ⟨base.run (sortOps pending), ?_, (commit_total (by omega) h hs ok.valid).2⟩
  show commitAuto n base pending = _
  rw [(parallel_eq_sequential hn h hs ok (List.range 8) (fun i => List.mem_range)).2.2]
  exact (commit_total (by omega) h hs ok.valid).1

/-! ### `Store.Root()` -/

/-- **Tie to the source.** The argument of the `CommitParallel` call in `(*Store).Root` is `s.ss.txn.ops` (read off
store/store.go by `facts` on every run): the tree is handed exactly the pending state operations — no operation is
dropped or rewritten on the way (e.g. a delete of a key whose stored value is empty: such a key is PRESENT, its leaf
commits to `hash("")`, and deleting it must remove the leaf). -/
theorem root_commits_exactly_the_pending_ops : Gen.SmtFacts.rootCommitsPendingOpsUnfiltered = true := by decide

/-- **The store's root is the canonical tree of (committed state updated by ALL pending operations)** — whatever
selection `keep` a filtering `Root()` would apply; depends on `root_commits_exactly_the_pending_ops`. -/
theorem store_root_canonical {n : Nat} (hn : 4 ≤ n) {base : Trie} {S : KMap} {pending : List Op} (keep : Op → Bool)
    (h : base.Rep n S) (hs : S.HasSentinels n) (ok : ParOK n S pending) :
    ∃ t, storeRootTree n none base (handedOps Gen.SmtFacts.rootCommitsPendingOpsUnfiltered keep pending) = .ok t
      ∧ t.Rep n (S.run (sortOps pending)) := by
  have hh : handedOps Gen.SmtFacts.rootCommitsPendingOpsUnfiltered keep pending = pending := by
    simp [handedOps, root_commits_exactly_the_pending_ops]
  rw [hh]
  exact clone_root_canonical hn none h hs ok |>.imp fun t ht => by
    simpa [copyCached] using ht

/-- a `Root()` that drops the delete of an empty-valued key keeps the key: "joined then left" differs from "never
joined" (2-bit keys; the committed state holds `10 ↦ hash("")`, the block deletes it) -/
example :
    let del : Op := .del [true, false]
    let kvs : List (Key × Bytes) := [([false, false], [1]), ([true, false], []), ([true, true], [3])]
    (canon kvs).map (fun t => t.run (handedOps false (fun o => o != del) [del]))
      ≠ (canon kvs).map (fun t => t.run [del]) := by
  decide

/-! ### `Store.Commit()` -/

/-- **Tie to the source.** `root` is assigned exactly once in `(*Store).Commit`, by the top-level statement
`root, err = s.Root()` (read off store/store.go by `facts` on every run): the root recorded for a height is the root of
the tree `Root()` builds — for EVERY block, also one without pending operations on a database that has no commit id yet. -/
theorem commit_takes_root_from_root : Gen.SmtFacts.commitTakesRootFromRoot = true := by decide

/-- **The root committed for a height is the root of the canonical tree of (committed state updated by all pending
operations)** — whatever a commit-id lookup (`recorded`) would find and whatever selection (`keep`) a filtering `Root()`
would apply; in particular an empty block on the empty state commits the root of the canonical empty tree. Depends on
`commit_takes_root_from_root` and `root_commits_exactly_the_pending_ops`. -/
theorem store_commit_root_canonical {n : Nat} (hn : 4 ≤ n) {base : Trie} {S : KMap} {pending : List Op}
    (keep : Op → Bool) (recorded : Bytes) (h : base.Rep n S) (hs : S.HasSentinels n) (ok : ParOK n S pending) :
    ∃ t : Trie, storeCommitRoot Gen.SmtFacts.commitTakesRootFromRoot recorded none pending
        (storeRootTree n none base (handedOps Gen.SmtFacts.rootCommitsPendingOpsUnfiltered keep pending)) = .ok t.root
      ∧ t.Rep n (S.run (sortOps pending)) := by
  obtain ⟨t, ht, hr⟩ := store_root_canonical hn keep h hs ok
  exact ⟨t, by simp [storeCommitRoot, commit_takes_root_from_root, ht], hr⟩

/-- a `Commit()` with a shortcut for empty blocks records what the commit-id lookup finds — nothing, on a fresh database -/
example (t : Outcome Trie) : storeCommitRoot false [] none [] t = .ok [] := rfl

/-! ### `Store.Rollback()` -/

/-- **Tie to the source (generated from both sites).** The prefix `Store.Root()` writes the commitment tree under is among
the prefixes `Store.Rollback(v)` prunes above `v`. -/
theorem rollback_prunes_the_tree_prefix : Gen.SmtFacts.rootWritesPrefix ∈ Gen.SmtFacts.rollbackPrunedPrefixes := by decide

/-- **The first root after a rollback is the canonical tree of (state committed for the target updated by the pending
operations)**, whatever tree (`tip`) the abandoned fork had reached; depends on `rollback_prunes_the_tree_prefix`. -/
theorem store_root_after_rollback_canonical {n : Nat} (hn : 4 ≤ n) {target : Trie} (tip : Trie) {S : KMap}
    {pending : List Op} (keep : Op → Bool) (h : target.Rep n S) (hs : S.HasSentinels n) (ok : ParOK n S pending) :
    ∃ t, storeRootTree n none
        (rollbackTree Gen.SmtFacts.rollbackPrunedPrefixes Gen.SmtFacts.rootWritesPrefix target tip)
        (handedOps Gen.SmtFacts.rootCommitsPendingOpsUnfiltered keep pending) = .ok t
      ∧ t.Rep n (S.run (sortOps pending)) := by
  have hr : rollbackTree Gen.SmtFacts.rollbackPrunedPrefixes Gen.SmtFacts.rootWritesPrefix target tip = target := by
    simp [rollbackTree, rollback_prunes_the_tree_prefix]
  rw [hr]
  exact store_root_canonical hn keep h hs ok

/-- a clone that inherited the source's cached tree would return it unchanged, whatever it is asked to write -/
example (n : Nat) (t base : Trie) (pending : List Op) :
    storeRootTree n (copyCached true (some t)) base pending = .ok t := rfl

/-! ### the node cache -/
section NodeCache
open Cache

/-- the cache discipline store/smt.go has now, read off `setNode` / `getNode` / `delNode` by `facts` on every run -/
def sourceDiscipline : Discipline :=
  fromFacts Gen.SmtFacts.setNodeDropsAtCapacity Gen.SmtFacts.setNodeWritesCacheAlways
    Gen.SmtFacts.setNodeWritesCacheBelowCapacity Gen.SmtFacts.getNodeAdmitsAlways
    Gen.SmtFacts.getNodeAdmitsBelowCapacity Gen.SmtFacts.delNodeEvicts

/-- **Tie to the source.** `setNode` writes the cache unconditionally (after dropping a full cache), `delNode` evicts
unconditionally, `getNode` admits below capacity, and no other function of smt.go touches individual cache entries: the
source's discipline is the `original` one of the model. (A change of any of these statements changes the generated facts
and breaks this obligation.) -/
theorem source_cache_discipline :
    Gen.SmtFacts.setNodeWritesCacheAlways = true ∧ Gen.SmtFacts.delNodeEvicts = true
    ∧ Gen.SmtFacts.setNodeDropsAtCapacity = true ∧ Gen.SmtFacts.getNodeAdmitsBelowCapacity = true
    ∧ Gen.SmtFacts.nodeCacheEntriesTouchedOnlyByGetSetDel = true ∧ 1 ≤ Gen.SmtFacts.maxCacheSize := by decide

/-- **Cache coherence**, for the rules of the source, every node type, every capacity (`MaxCacheSize` is just one of
them), every initial node store and every sequence of `setNode` / `delNode` / `getNode` / whole-cache resets: every
cached entry equals the store's latest node for that key. -/
theorem node_cache_coherent {K V : Type} [DecidableEq K] (cap : Nat) (store₀ : K → Option V) (as : List (Acc K V)) :
    Coherent (run sourceDiscipline cap ⟨store₀, []⟩ as) :=
  coherent_run (fun _ _ => by simp [sourceDiscipline, fromFacts, source_cache_discipline.1])
    (by simp [sourceDiscipline, fromFacts, source_cache_discipline.2.1]) cap as (coherent_nil store₀)

/-- **The cache is transparent**: in every reachable state a read through the cache returns what the store holds, and the
store after any access sequence is what it would be without a cache — independent of the capacity. The tree algorithm
only reaches its nodes through these functions, so roots and proofs do not depend on the cache. -/
theorem node_cache_transparent {K V : Type} [DecidableEq K] (cap : Nat) (store₀ : K → Option V) (as : List (Acc K V))
    (k : K) :
    (getNode sourceDiscipline cap (run sourceDiscipline cap ⟨store₀, []⟩ as) k).1 = runStore store₀ as k
    ∧ (run sourceDiscipline cap ⟨store₀, []⟩ as).store = runStore store₀ as := by
  have hs := run_store sourceDiscipline cap as (⟨store₀, []⟩ : St K V)
  exact ⟨by rw [getNode_eq_store _ _ (node_cache_coherent cap store₀ as), hs], hs⟩

/-- non-vacuity: at capacity 2 the source's rules do drop and re-admit, and the overwrite is seen -/
example :
    let s := run original 2 (⟨fun _ => none, []⟩ : St Nat Nat) [.set 0 10, .set 1 11, .set 0 20, .get 1]
    s.cache = [(1, 11), (0, 20)] ∧ (getNode original 2 s 0).1 = some 20 := by decide

/-- **The mutated admission rule is incoherent** (kept as a theorem about the mutated rule): with "cache the written node
only while there is room", at capacity 1, writing a key, then overwriting it leaves the old node in the cache — the
next read returns the stale node although the store holds the new one. This is the seeded change `pending2-C08`
(replayed on the real code by the corpus scenario `overwrite-with-full-node-cache`). -/
theorem admit_only_below_capacity_incoherent :
    let s := run admitOnlyBelowCapacity 1 (⟨fun _ => none, []⟩ : St Nat Nat) [.set 0 10, .set 0 20]
    (getNode admitOnlyBelowCapacity 1 s 0).1 = some 10 ∧ s.store 0 = some 20 ∧ ¬ Coherent s := by
  refine ⟨by decide, by decide, ?_⟩
  intro h
  have := h 0 10 (by decide)
  revert this
  decide

end NodeCache

/-! ### tie to the source: the constants the model hard-codes are the ones `store/smt.go` has today
(`Canopy/Gen/SmtFacts.lean` is regenerated from the working tree on every run) -/

theorem model_constants_match_source :
    Gen.SmtFacts.maxKeyBitLength = 160 ∧ Gen.SmtFacts.numSubtrees = 8 ∧ Gen.SmtFacts.subtreePrefixBits = 3
    ∧ Gen.SmtFacts.parallelFallbackBelow = 16
    ∧ (borders 160).length = 2 * Gen.SmtFacts.numSubtrees - 2
    ∧ keyOfBytes 160 Gen.SmtFacts.rootKey = rootKey 160
    ∧ keyOfBytes 5 Gen.SmtFacts.rootKey = rootKey 5 := by decide

end Canopy.Smt
