import Canopy.Proof.SmtHash
import Canopy.Gen.SmtFacts
/-!
# C08 — the state root is a pure, collision-free function of the state

Model: `Canopy/Model/Smt.lean` (the sparse Merkle tree of `store/smt.go`). A state is a partial map
`S : Key → Option Bytes` (`KMap`) on `n`-bit keys holding the two sentinel leaves; `t.Rep n S` says that the
tree `t` is in canonical form (`Trie.WF n`) and holds exactly `S`. `insert` / `delete` are the algorithm
(`traverse` + `set` / `delete`), `commit` the sorted sequential batch (`SMT.Commit`), `Trie.root` the Go root
(SHA-256 over the encoded child keys and values), `Trie.value H4` the same with an abstract node hash.

What is proved here, for every key length `n > 0`, every tree and every history:

* `canonical_unique`       canonical form is a property: two canonical trees with the same contents are equal
* `insert_canonical`, `delete_canonical`   the algorithm's steps keep the tree canonical and act on the contents
                                            as map insert / erase
* `history_independence`   any two histories (any order, any batching, overwrites, insert-then-delete, …) that end
                           in the same map end in the same tree, hence in the same root (`root_history_independent`)
* `commit_total`           the sequential batch commit of valid operations never reaches the Go panic and is such a history
* `encodeKey_inj`          the node-key byte encoding (with its padding byte) is injective
* `root_injective`         different states give different roots — under the explicit hypothesis `H4Inj` that the
                           node hash is injective on 4-tuples (collision-freeness + unambiguity of the unframed
                           concatenation; a hypothesis, not an axiom; `H4Inj_satisfiable` shows it is consistent)

Not proved here (covered by the correspondence run only, see `checks/C08.py`): the L2 refinement (node table,
traversal stack, rehash-skipping) of `smt.go` to these L1 functions, and the goroutine level of `CommitParallel`.
`parallel_eq_sequential` for the border-key scheme of the model is in `Canopy/Proof/SmtPar.lean` when present.
-/
namespace Canopy.Smt
open Trie

/-- Canonical form is unique: the tree is a function of the key/value set. -/
theorem canonical_unique {n : Nat} {t₁ t₂ : Trie} {S : KMap} (h₁ : t₁.Rep n S) (h₂ : t₂.Rep n S) : t₁ = t₂ :=
  rep_unique h₁ h₂

/-- `set()` keeps the tree canonical and inserts/overwrites exactly one binding. -/
theorem insert_canonical {n : Nat} {t : Trie} {S : KMap} {k : Key} {v : Bytes}
    (h : t.Rep n S) (hk : k.length = n) : (insert k v t).Rep n (S.set k v) :=
  rep_insert h hk

/-- `delete()` keeps the tree canonical and erases exactly one binding (a no-op for an absent key). -/
theorem delete_canonical {n : Nat} {p : Key} {l r : Trie} {S : KMap} (k : Key)
    (h : (Trie.node p l r).Rep n S) : (delete k (Trie.node p l r)).Rep n (S.erase k) :=
  rep_delete k h

/-- The tree after any history of valid operations is the canonical tree of the resulting map. -/
theorem run_canonical {n : Nat} (hn : 0 < n) {t : Trie} {S : KMap} (ops : List Op)
    (h : t.Rep n S) (hs : S.HasSentinels n) (hv : ∀ op ∈ ops, op.Valid n) :
    (t.run ops).Rep n (S.run ops) :=
  (rep_run hn ops h hs hv).1

/-- **History independence.** Two histories of sets, overwrites and deletes — whatever their order, length and
batch boundaries — that start from trees with the contents `S₁`, `S₂` and end in the same map end in the same
tree. -/
theorem history_independence {n : Nat} (hn : 0 < n) {t₁ t₂ : Trie} {S₁ S₂ : KMap} (ops₁ ops₂ : List Op)
    (h₁ : t₁.Rep n S₁) (h₂ : t₂.Rep n S₂) (hs₁ : S₁.HasSentinels n) (hs₂ : S₂.HasSentinels n)
    (hv₁ : ∀ op ∈ ops₁, op.Valid n) (hv₂ : ∀ op ∈ ops₂, op.Valid n)
    (hfinal : S₁.run ops₁ = S₂.run ops₂) : t₁.run ops₁ = t₂.run ops₂ :=
  rep_unique (run_canonical hn ops₁ h₁ hs₁ hv₁) (hfinal ▸ run_canonical hn ops₂ h₂ hs₂ hv₂)

/-- … in particular the same root, for the real SHA-256 root and for every abstract node hash. -/
theorem root_history_independent {n : Nat} (hn : 0 < n) (ops₁ ops₂ : List Op)
    (hv₁ : ∀ op ∈ ops₁, op.Valid n) (hv₂ : ∀ op ∈ ops₂, op.Valid n)
    (hfinal : (initMap n).run ops₁ = (initMap n).run ops₂) :
    ((empty n).run ops₁).root = ((empty n).run ops₂).root := by
  rw [history_independence hn ops₁ ops₂ (rep_empty hn) (rep_empty hn) (initMap_hasSentinels hn)
    (initMap_hasSentinels hn) hv₁ hv₂ hfinal]

/-- non-vacuity: insert-then-delete of one key and an overwrite, against a single insert (n = 3) -/
example :
    let a : Key := [false, true, false]
    let b : Key := [false, true, true]
    ((empty 3).run [.set a [1], .set b [2], .del a, .set b [3]]) = ((empty 3).run [.set b [3]])
    ∧ (empty 3).run [.set b [3]] ≠ empty 3 := by decide

/-- `SMT.Commit` of a batch of valid operations cannot reach the Go panic (`GrandParent()` of the root) and equals
the history "sorted batch applied left to right"; so batching is covered by `history_independence`. -/
theorem commit_total {n : Nat} (hn : 0 < n) {t : Trie} {S : KMap} {ops : List Op} (h : t.Rep n S)
    (hs : S.HasSentinels n) (hv : ∀ op ∈ ops, op.Valid n) :
    commit t ops = .ok (t.run (sortOps ops)) ∧ (t.run (sortOps ops)).Rep n (S.run (sortOps ops)) :=
  ⟨commit_eq_run hn h hs hv, run_canonical hn _ h hs (valid_sortOps hv)⟩

/-- the hypothesis of `commit_total` is needed: deleting a sentinel that hangs directly under the root is the Go
panic, reproduced by the model as `crash` (and by the correspondence run on the real code) -/
example : stepTop (empty 3) (.del (minKey 3)) = none ∧ runTop (empty 3) [.set [false, true, true] [7], .del (maxKey 3)] = none := by
  decide

/-- The node-key byte encoding (`key.bytes()`, including the padding byte) is injective on non-empty bit strings. -/
theorem encodeKey_inj {a b : Key} (ha : a ≠ []) (hb : b ≠ []) (h : encodeKey a = encodeKey b) : a = b :=
  encodeKey_injective ha hb h

/-- **Different states, different roots** — exactly as strong as the idealisation `H4Inj H4` of the node hash
(stated as a hypothesis): if two canonical trees have the same root value, they hold the same state. -/
theorem root_injective {H4 : Bytes → Bytes → Bytes → Bytes → Bytes} (hH : H4Inj H4) {n : Nat} (hn : 0 < n)
    {t₁ t₂ : Trie} {S₁ S₂ : KMap} (h₁ : t₁.Rep n S₁) (h₂ : t₂.Rep n S₂)
    (hs₁ : S₁.HasSentinels n) (hs₂ : S₂.HasSentinels n)
    (hroot : t₁.value H4 = t₂.value H4) : S₁ = S₂ := by
  have hk : t₁.key = t₂.key := (top_key_nil h₁ hs₁ hn).trans (top_key_nil h₂ hs₂ hn).symm
  have := value_injective hH t₁ t₂ h₁.1 h₂.1 hk hroot
  subst this
  exact map_eq_of_rep h₁ h₂

/-- the root is a function of the state *and only of the state*: equal roots ⇔ equal states (for reachable trees) -/
theorem root_eq_iff {H4 : Bytes → Bytes → Bytes → Bytes → Bytes} (hH : H4Inj H4) {n : Nat} (hn : 0 < n)
    (ops₁ ops₂ : List Op) (hv₁ : ∀ op ∈ ops₁, op.Valid n) (hv₂ : ∀ op ∈ ops₂, op.Valid n) :
    ((empty n).run ops₁).value H4 = ((empty n).run ops₂).value H4 ↔ (initMap n).run ops₁ = (initMap n).run ops₂ := by
  have r₁ := rep_run hn ops₁ (rep_empty hn) (initMap_hasSentinels hn) hv₁
  have r₂ := rep_run hn ops₂ (rep_empty hn) (initMap_hasSentinels hn) hv₂
  constructor
  · exact root_injective hH hn r₁.1 r₂.1 r₁.2 r₂.2
  · intro h
    rw [history_independence hn ops₁ ops₂ (rep_empty hn) (rep_empty hn) (initMap_hasSentinels hn)
      (initMap_hasSentinels hn) hv₁ hv₂ h]

/-! ### the idealisation is consistent (non-vacuity of `root_injective`) -/

/-- a framed, hence injective, stand-in for the node hash: every byte `x` becomes `1 x`, every field ends in `0` -/
def frame (x : Bytes) : Bytes := x.flatMap (fun b => [1, b]) ++ [0]
def framed4 (a b c d : Bytes) : Bytes := frame a ++ (frame b ++ (frame c ++ frame d))

theorem frame_append_inj : ∀ (x y r s : Bytes), frame x ++ r = frame y ++ s → x = y ∧ r = s
  | [], [], r, s, h => by simpa [frame] using h
  | [], b :: y, r, s, h => by simp [frame] at h
  | a :: x, [], r, s, h => by simp [frame] at h
  | a :: x, b :: y, r, s, h => by
    simp only [frame, List.flatMap_cons, List.append_assoc, List.cons_append, List.nil_append, List.cons.injEq,
      true_and] at h
    obtain ⟨e, h⟩ := h
    have := frame_append_inj x y r s (by simpa [frame] using h)
    exact ⟨by rw [e, this.1], this.2⟩

theorem H4Inj_satisfiable : H4Inj framed4 := by
  intro a b c d a' b' c' d' h
  unfold framed4 at h
  obtain ⟨e1, h⟩ := frame_append_inj _ _ _ _ h
  obtain ⟨e2, h⟩ := frame_append_inj _ _ _ _ h
  obtain ⟨e3, h⟩ := frame_append_inj _ _ _ _ h
  exact ⟨e1, e2, e3, (frame_append_inj d d' [] [] (by simpa using h)).1⟩

/-- …whereas the *unframed* concatenation that `updateParentValue` hashes is ambiguous as a byte string: the
4-tuple is not recoverable from `lk ‖ lv ‖ rk ‖ rv`, so "different states ⇒ different roots" cannot be derived
from collision resistance of SHA-256 alone — it rests on the lengths of the fields as well. -/
theorem unframed_concatenation_ambiguous :
    ∃ a b c d a' b' c' d' : Bytes, (a, b, c, d) ≠ (a', b', c', d') ∧ a ++ b ++ c ++ d = a' ++ b' ++ c' ++ d' :=
  ⟨[1], [2], [], [], [1, 2], [], [], [], by decide, by decide⟩

/-! ### tie to the source: the constants the model hard-codes are the ones `store/smt.go` has today
(`Canopy/Gen/SmtFacts.lean` is regenerated from the working tree on every run) -/

theorem model_constants_match_source :
    Gen.SmtFacts.maxKeyBitLength = 160 ∧ Gen.SmtFacts.numSubtrees = 8 ∧ Gen.SmtFacts.subtreePrefixBits = 3
    ∧ Gen.SmtFacts.parallelFallbackBelow = 16
    ∧ (borders 160).length = 2 * Gen.SmtFacts.numSubtrees - 2
    ∧ keyOfBytes 160 Gen.SmtFacts.rootKey = rootKey 160
    ∧ keyOfBytes 5 Gen.SmtFacts.rootKey = rootKey 5 := by decide

end Canopy.Smt
