import Canopy.Model.Bytes
import Canopy.Model.Sha256
