import Canopy.Model.Bytes
