import Driver.Common
import Canopy.Model.Bytes
import Canopy.Gen.Keys
/-! Driver for C19/M-key: stateless, one answer per line. -/
namespace Driver.C19
open Canopy Driver

def showSegs (segs : List Bytes) : String :=
  "segs " ++ toString segs.length ++ String.join (segs.map fun s => " " ++ hexOrDash s)

def parseArgs (ws : List String) : Option (List Arg) := ws.mapM Arg.parse

def step (line : String) : String :=
  match words line with
  | "key" :: "fsm" :: name :: args =>
    match parseArgs args with
    | some as => match Gen.fsm.dispatch name as with
      | some k => "key " ++ hexOrDash k
      | none => "bad-op"
    | none => "bad-op"
  | "key" :: "indexer" :: name :: args =>
    match parseArgs args with
    | some as => match Gen.indexer.dispatch name as with
      | some k => "key " ++ hexOrDash k
      | none => "bad-op"
    | none => "bad-op"
  | "join" :: segs =>
    -- segments: hex, "-" = empty non-nil, "nil" = nil (skipped by the real code)
    let parsed : Option (List (Option Bytes)) := segs.mapM fun s =>
      if s == "nil" then some none else (ofHex s).map some
    match parsed with
    | some ss => "key " ++ hexOrDash (joinLenPrefixOpt ss)
    | none => "bad-op"
  | ["decode", k] =>
    match ofHex k with
    | some bz => match decodeLenPrefixed bz with
      | some segs => showSegs segs
      | none => "panic"
    | none => "bad-op"
  | _ => "bad-op"

end Driver.C19

def main : IO Unit := Driver.loopStateless Driver.C19.step
