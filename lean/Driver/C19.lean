import Driver.Common
import Canopy.Model.Bytes
import Canopy.Gen.Keys
import Canopy.Model.SignBytes
import Canopy.Model.ProtoCrit
import Canopy.Model.Merkle
import Canopy.Gen.Proto
/-! Driver for C19: (a) M-key, (b) sign bytes of certificates and consensus messages, (c) the modelled
decoders. Stateless, one answer per line. -/
namespace Driver.C19
open Canopy Driver Canopy.Proto Canopy.SignBytes

/-! text encoding of certificates / messages (written by harness/c19/signbytes.go) -/

def parseView (s : String) : Option (Option ViewC) :=
  if s == "-" then some none
  else match (s.splitOn ",").mapM String.toNat? with
    | some [a, b, c, d, e, f] => some (some ⟨a, b, c, d, e, f⟩)
    | _ => none

def parseOptBytes (s : String) : Option (Option Bytes) :=
  if s == "nil" then some none else (ofHex s).map some

def parseQc (s : String) : Option (Option QcC) :=
  if s == "nil" then some none
  else match s.splitOn "|" with
    | [v, r, rh, b, bh, pk, sg] => do
      let v ← parseView v
      let r ← parseOptBytes r
      let rh ← ofHex rh
      let b ← ofHex b
      let bh ← ofHex bh
      let pk ← ofHex pk
      let sg ← parseOptBytes sg
      pure (some ⟨v, r, rh, b, bh, pk, sg⟩)
    | _ => none

def parseSig (s : String) : Option (Option SigC) :=
  if s == "nil" then some none
  else match s.splitOn ":" with
    | [a, b] => do
      let a ← ofHex a
      let b ← ofHex b
      pure (some ⟨a, b⟩)
    | _ => none

def parseDse (s : String) : Option DseC :=
  match s.splitOn "~" with
  | [a, b] => do
    let a ← parseQc a
    let b ← parseQc b
    pure ⟨a, b⟩
  | _ => none

def parseDseList (s : String) : Option (List DseC) :=
  if s == "none" then some [] else (s.splitOn ";").mapM parseDse

def parseMsg (ws : List String) : Option MsgC :=
  match ws with
  | [h, v, q, hq, e, d, sg, t, r] => do
    let h ← parseView h
    let v ← parseSig v
    let q ← parseQc q
    let hq ← parseQc hq
    let e ← parseDseList e
    let d ← parseOptBytes d
    let sg ← parseSig sg
    let t ← t.toNat?
    let r ← r.toNat?
    pure ⟨h, v, q, hq, e, d, sg, t, r⟩
  | _ => none

def showBytes (b : Bytes) : String := "bytes " ++ hexOrDash b

def showSegs (segs : List Bytes) : String :=
  "segs " ++ toString segs.length ++ String.join (segs.map fun s => " " ++ hexOrDash s)

def parseArgs (ws : List String) : Option (List Arg) := ws.mapM Arg.parse

def step (line : String) : String :=
  match words line with
  | "key" :: "fsm" :: name :: args =>
    match parseArgs args with
    | some as => match Gen.fsm.dispatch name as with
      | some k => "key " ++ hexOrDash k
      | none => "bad-op"
    | none => "bad-op"
  | "key" :: "indexer" :: name :: args =>
    match parseArgs args with
    | some as => match Gen.indexer.dispatch name as with
      | some k => "key " ++ hexOrDash k
      | none => "bad-op"
    | none => "bad-op"
  | "join" :: segs =>
    -- segments: hex, "-" = empty non-nil, "nil" = nil (skipped by the real code)
    let parsed : Option (List (Option Bytes)) := segs.mapM fun s =>
      if s == "nil" then some none else (ofHex s).map some
    match parsed with
    | some ss => "key " ++ hexOrDash (joinLenPrefixOpt ss)
    | none => "bad-op"
  | ["chainok", c] =>
    match c.toNat? with
    | some n => if 1 ≤ n && n ≤ Gen.fsm.MaxChainId then "true" else "false"
    | none => "bad-op"
  | ["poolkey", kind, c] =>
    let add : Option Nat := match kind with
      | "committee" => some 0
      | "holding" => some Gen.fsm.HoldingPoolAddend
      | "liquidity" => some Gen.fsm.LiquidityPoolAddend
      | "escrow" => some Gen.fsm.EscrowPoolAddend
      | _ => none
    match add, c.toNat? with
    | some a, some n => "key " ++ hexOrDash (Gen.fsm.KeyForPool (UInt64.ofNat (n + a)))
    | _, _ => "bad-op"
  | ["decode", k] =>
    match ofHex k with
    | some bz => match decodeLenPrefixed bz with
      | some segs => showSegs segs
      | none => "panic"
    | none => "bad-op"
  | ["view", v] =>
    match parseView v with
    | some (some v) => showBytes (canonView v)
    | _ => "bad-op"
  | ["qcsb", q] =>
    match parseQc q with
    | some (some q) => showBytes (qcSignBytes q)
    | _ => "bad-op"
  | ["qc", q] =>
    match parseQc q with
    | some (some q) => showBytes (canonQc q)
    | _ => "bad-op"
  | "electionwf" :: ws =>
    -- a validly signed ELECTION message at the right height: accepted iff its VRF is well formed
    match ws.reverse with
    | k :: rest =>
      match parseMsg rest.reverse, ofHex k with
      | some m, some k => if m.electionWellFormed k then "ok" else "rej"
      | _, _ => "bad-op"
    | [] => "bad-op"
  | "msgsb" :: ws =>
    match parseMsg ws with
    | some m => showBytes (msgSignBytes m)
    | none => "bad-op"
  | ["dectx", raw] =>
    match ofHex raw with
    | none => "bad-op"
    | some b =>
      match decodeTx b with
      | some t => "tx " ++ hexOrDash (canon t) ++ " sb " ++ hexOrDash (signBytes t)
      | none =>
        match (if protoMaxMessageBytes < b.length || !preflight b then none else decodeLoose b) with
        | some (_, true) => "err unknown-fields"
        | _ => "err"
  | ["deccrit", ty, raw] =>
    -- lib.Unmarshal of a critical message: generic schema-directed walk over the regenerated schemas
    if ty != "QuorumCertificate" && ty != "Block" && ty != "Transaction" then "bad-op"
    else match ofHex raw with
      | some b => (ProtoCrit.checkCritical Gen.Proto.messages Gen.Proto.enums ty b).toString
      | none => "bad-op"
  | ["rlpbind", canonTx, raw] =>
    -- VerifyRLPBytes: the submitted wrapper is bound to the raw Ethereum transaction iff its canonical
    -- bytes are those of the wrapper the conversion yields (digest over the WHOLE transaction)
    match ofHex canonTx, ofHex raw with
    | some c, some b =>
      match decodeTx b with
      | some t => if canon t == c then "bound" else "unbound"
      | none => "err"
    | _, _ => "bad-op"
  | "merkle" :: items =>
    -- crypto.MerkleTree root of the items ("-" = the empty item)
    match items.mapM ofHex with
    | some l => showBytes (Merkle.merkleRoot l)
    | none => "bad-op"
  | ["preflight", raw] =>
    match ofHex raw with
    | some b => if preflight b then "ok" else "err"
    | none => "bad-op"
  | _ => "bad-op"

end Driver.C19

def main : IO Unit := Driver.loopStateless Driver.C19.step
