import Driver.ExecStep
/-! Driver for C03: the execution-path model on the multi-path runs (see `Driver/ExecStep.lean`).
Stateful; one answer per line. -/

def main : IO Unit := Driver.loopStateful ({} : Driver.ExecStep.St) Driver.ExecStep.step
