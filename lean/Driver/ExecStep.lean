import Driver.Common
import Canopy.Model.Exec
import Canopy.Model.ExecFacts
/-! Shared step function of the C03 / C11 / C07 drivers: runs the execution-path mechanism model
`Canopy.Exec` on the operations the Go drivers (`harness/execdrv`) performed on real controllers.
States and blocks are opaque names (digests); `applyBlock` is the table of `def` lines = the
proposer's answer for (pre-state, block). Every other path must print what the model's path function
gives. -/
namespace Driver.ExecStep
open Canopy.Exec Driver

structure Tab where
  /-- (pre, blk) ↦ (post, obs) -/
  apply : List ((String × String) × (String × String)) := []
  /-- blk ↦ (height, claimed obs) -/
  blocks : List (String × (Nat × String)) := []

def Tab.sys (t : Tab) : Sys String String String Unit where
  applyBlock s b := match t.apply.lookup (s, b) with
    | some r => .ok r
    | none => .error ()
  partialState s b := "?partial(" ++ s ++ "," ++ b ++ ")"
  claim b := match t.blocks.lookup b with
    | some (_, o) => o
    | none => "?unclaimed"
  height b := match t.blocks.lookup b with
    | some (h, _) => h
    | none => 0
  -- the mechanism the source tree has (generated fact): does a controller reset drop the cached result?
  resetClearsCache := resetClearsCacheFact
  -- certificate versions: the header's embedded version is not part of the op lines; on the source
  -- tree's mechanism (`indexesLastCertFact = true`) it is never consulted
  lastCertOf _ := 0
  applyStale _ _ _ := .error ()
  indexesLastCert := indexesLastCertFact

structure St where
  tab : Tab := {}
  nodes : List (String × Node String String String) := []

def St.get (s : St) (name : String) : Option (Node String String String) := s.nodes.lookup name
def St.set (s : St) (name : String) (n : Node String String String) : St :=
  { s with nodes := (name, n) :: s.nodes.filter (·.1 != name) }

def showOutcome (n : Node String String String) : Outcome String → String
  | .ok _ => match n.archive with
    | (_, o) :: _ => "ok state=" ++ n.committed ++ " obs=" ++ o
    | [] => "ok state=" ++ n.committed ++ " obs=-"
  | .mismatch => "err:main/22"
  | .failed => "err:exec"
  | .wrongHeight => "err:height"

def define (s : St) (hn : Nat) (pre blk post obs claim : String) : St :=
  let t := s.tab
  -- a block keeps the claim of its first definition
  let blocks := match t.blocks.lookup blk with
    | some _ => t.blocks
    | none => (blk, (hn, claim)) :: t.blocks
  { s with tab := { apply := ((pre, blk), (post, obs)) :: t.apply, blocks := blocks } }

def step (s : St) (line : String) : St × String :=
  match words line with
  | "def" :: h :: pre :: blk :: post :: obs :: claimed =>
    -- `claimed` (optional) is what the block itself claims when that differs from what executing it gives
    match h.toNat?, claimed with
    | some hn, [] => (define s hn pre blk post obs obs, "def")
    | some hn, [c] => (define s hn pre blk post obs c, "def")
    | _, _ => (s, "bad-op")
  | [name, "new", genesis] =>
    (s.set name (init genesis 1), "ok state=" ++ genesis)
  | [name, "produce", blk, _gmp] =>
    match s.get name with
    | some n => (s.set name (produce s.tab.sys n blk).1, "ok")
    | none => (s, "bad-op")
  | [name, "validate", blk, _gmp] =>
    match s.get name with
    | some n =>
      let (n', o) := validate s.tab.sys n blk
      (s.set name n', match o with
        | .ok _ => "ok"
        | o => showOutcome n' o)
    | none => (s, "bad-op")
  | name :: op :: blk :: _gmp :: cert =>
    -- `cert=<hex>` (optional) names the version of the commit certificate delivered with the block
    let v : Nat := match cert with
      | [c] => (c.drop 5).toString.foldl (fun a ch =>
          16 * a + (if ch.isDigit then ch.toNat - 48 else if 'a' ≤ ch && ch ≤ 'f' then ch.toNat - 87 else 0)) 0 + 1
      | _ => 0
    if (op == "commit" || op == "sync") && cert.length ≤ 1 then
      match s.get name with
      | some n =>
        let (n', o) := commit s.tab.sys n blk (op == "sync") v
        (s.set name n', showOutcome n' o)
      | none => (s, "bad-op")
    else (s, "bad-op")
  | [name, "interrupt"] =>
    match s.get name with
    | some n => (s.set name (roundInterrupt n), "ok")
    | none => (s, "bad-op")
  | [name, "restart"] =>
    match s.get name with
    | some n => let n' := restart n; (s.set name n', "ok state=" ++ n'.committed)
    | none => (s, "bad-op")
  | _ => (s, "bad-op")

end Driver.ExecStep
