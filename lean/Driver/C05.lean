import Driver.Common
import Canopy.Model.Auth
import Canopy.Gen.Auth
/-! Driver for C05. Per case the harness declares the configuration, the relevant slice of the real
state, the keys, and the symbolic-signature facts (what real keys really signed); every `tx` line is
then answered by `Auth.applyTx` and rendered exactly like the harness renders the real state diff. -/
namespace Driver.C05
open Canopy Canopy.Auth Driver

structure St where
  cfg : Cfg := {}
  st : State := {}
  env : Env := {}
  contents : List (String × Content) := []

def hx (s : String) : Option Bytes := if s == "-" then some [] else ofHex s

def kv (tok : String) : Option (String × String) :=
  match tok.splitOn "=" with
  | k :: v :: rest => some (k, "=".intercalate (v :: rest))
  | _ => none

def lookup (kvs : List (String × String)) (k : String) : Option String := (kvs.find? (·.1 == k)).map (·.2)

def parseScheme : String → Option Scheme
  | "bls" => some .bls | "ed25519" => some .ed25519 | "secp256k1" => some .secp256k1 | "eth" => some .eth | _ => none

def parseBits (s : String) : Option (List Bool) :=
  s.toList.mapM fun c => if c == '1' then some true else if c == '0' then some false else none

/-- `<scheme>:<hex>` | `multi:<thr>:<bits>:<k1>,<k2>,…` | `-` / `bad:…` (no key) -/
def parseKey (tok : String) : Option (Option PubKey) :=
  match tok.splitOn ":" with
  | ["-"] => some none
  | ["bad", h] => (hx h).map fun b => if b.isEmpty then none else some (.garbage b)
  | ["multi", thr, bits, ks] =>
    match thr.toNat?, parseBits bits, (ks.splitOn ",").mapM ofHex with
    | some t, some b, some k => some (some (.multi k b t))
    | _, _, _ => none
  | [sc, h] =>
    match parseScheme sc, ofHex h with
    | some s, some b => some (some (.single s b))
    | _, _ => none
  | _ => none

def strOfHex (s : String) : Option String := (hx s).map fun b => String.ofList (b.map fun u => Char.ofNat u.toNat)

def parseContent (toks : List String) : Option Content := do
  let kvs ← toks.mapM kv
  let g := lookup kvs
  let nat (k : String) : Option Nat := (g k).bind String.toNat?
  let mt ← (g "mt").bind strOfHex
  let memo ← (g "memo").bind strOfHex
  let kindS ← g "kind"
  let msg : Option Msg ←
    if kindS == "none" then some none else do
      let kind ← Kind.ofName kindS
      let a ← (g "a").bind hx
      let pk ← (g "pk").bind parseKey
      let out ← (g "out").bind hx
      let oidS ← g "oid"
      let oid ← if oidS.startsWith "q" then some oidS.toUTF8.toList else hx oidS
      let to ← (g "to").bind hx
      let fl ← g "fl"
      some (some { kind := kind, a := a, pk := pk, out := out, oid := oid, ch := ← nat "ch", to := to, amt := ← nat "amt",
                   sh := ← nat "sh", eh := ← nat "eh", delegate := fl.contains 'd', wireSigner := fl.contains 'w',
                   mint := fl.contains 'm', resultsMismatch := fl.contains 'h', rest := ← g "rest" })
  some { messageType := mt, msg := msg, time := ← nat "time", createdHeight := ← nat "created", fee := ← nat "fee",
         memo := memo, networkId := ← nat "net", chainId := ← nat "chain", nonce := ← nat "nonce" }

/-! rendering -/

def showInt (i : Int) : String := if i ≥ 0 then "+" ++ toString i else toString i

def sortStrings (l : List String) : List String := l.mergeSort (fun a b => !(decide (b < a)))

def dedup (l : List String) : List String := l.foldl (fun acc s => if acc.contains s then acc else acc ++ [s]) []

def dashJoin (l : List String) (sep : String) : String := if l.isEmpty then "-" else sep.intercalate l

def netOf (log : List Change) (a : Addr) : Int :=
  log.foldl (fun acc c => match c with
    | .debit b n => if b = a then acc - n else acc
    | .credit b n => if b = a then acc + n else acc
    | _ => acc) 0

def poolNet (log : List Change) (id : Nat) : Int :=
  log.foldl (fun acc c => match c with | .pool i d => if i = id then acc + d else acc | _ => acc) 0

def render (signer : Addr) (log : List Change) : String :=
  let addrs := (log.filterMap fun | .debit a _ => some a | .credit a _ => some a | _ => none).eraseDups
  let acct := sortStrings (addrs.filterMap fun a =>
    let n := netOf log a
    if n = 0 then none else some (toHex a ++ ":" ++ showInt n))
  let nonce := sortStrings ((log.filterMap fun | .nonce a => some (toHex a) | _ => none).eraseDups)
  let vaddrs := (validatorsTouched log).eraseDups
  let val := sortStrings (vaddrs.map fun a =>
    let tags := log.filterMap fun
      | .valNew b out stake => if b = a then some s!"new,out={toHex out},stake={stake}" else none
      | .valOut b new => if b = a then some ("out=" ++ toHex new) else none
      | .valStake b n => if b = a then some ("stake+" ++ toString n) else none
      | .valUnstaking b => if b = a then some "unstaking" else none
      | .valPaused b => if b = a then some "paused" else none
      | .valUnpaused b => if b = a then some "unpaused" else none
      | _ => none
    toHex a ++ ":" ++ ",".intercalate tags)
  let okeys := (log.filterMap fun
      | .ordNew ch id _ _ _ => some (ch, id) | .ordDel ch id => some (ch, id)
      | .ordAmt ch id _ => some (ch, id) | .ordRecv ch id _ => some (ch, id) | _ => none).eraseDups
  let ord := sortStrings (okeys.map fun (ch, id) =>
    let tags := log.filterMap fun
      | .ordNew c i seller amt recv => if c = ch ∧ i = id then some s!"new,seller={toHex seller},amt={amt},recv={hexOrDash recv}" else none
      | .ordDel c i => if c = ch ∧ i = id then some "deleted" else none
      | .ordAmt c i d => if c = ch ∧ i = id then some ("amt" ++ showInt d) else none
      | .ordRecv c i r => if c = ch ∧ i = id then some ("recv=" ++ hexOrDash r) else none
      | _ => none
    s!"{ch}/{hexOrDash id}:" ++ ",".intercalate tags)
  let pids := (log.filterMap fun | .pool i _ => some i | _ => none).eraseDups
  let pools := pids.filterMap fun i =>
    let n := poolNet log i
    if n = 0 then some s!"pool{i}~" else some (s!"pool{i}" ++ showInt n)
  let fams := dedup (log.filterMap fun | .sys f => some f | _ => none)
  let sys := sortStrings (pools ++ fams)
  s!"ok signer={toHex signer} acct={dashJoin acct ","} nonce={dashJoin nonce ","} val={dashJoin val ";"} ord={dashJoin ord ";"} sys={dashJoin sys ","}"

/-! the step function -/

def setKinds (toks : List String) : Option (Kind → Nat) := do
  let kvs ← toks.mapM kv
  let tbl ← kvs.mapM fun (k, v) => do some ((← Kind.ofName k), (← v.toNat?))
  some fun k => ((tbl.find? (·.1 == k)).map (·.2)).getD 0

def step (s : St) (line : String) : St × String :=
  match words line with
  | "cfg" :: toks =>
    match toks.mapM kv with
    | none => (s, "bad-op")
    | some kvs =>
      let nat (k : String) : Nat := ((lookup kvs k).bind String.toNat?).getD 0
      let c0 := s.cfg
      let c : Cfg := { net := nat "net", chain := nat "chain", root := nat "root", height := nat "height",
                       legacyOff := (nat "legacyoff" == 1), approve := (nat "approve" == 1), minOrder := nat "minorder",
                       minStakeV := nat "minstakev", minStakeD := nat "minstaked", fee := c0.fee,
                       requireSigner := Canopy.Gen.Auth.multisigSignerGuardInPlace }
      ({ s with cfg := c }, "ok")
  | "fees" :: toks =>
    match setKinds toks with
    | some f => ({ s with cfg := { s.cfg with fee := f } }, "ok")
    | none => (s, "bad-op")
  | ["key", tok] =>
    match parseKey tok with
    | some (some pk) =>
      if !pk.wf then (s, "bad-key") else
      match s.env.addrOf pk with
      | some a => (s, "addr " ++ toHex a)
      | none => (s, "bad-key")
    | _ => (s, "bad-op")
  | ["key", tok, addr] =>
    match parseKey tok, ofHex addr with
    | some (some (.single sc b)), some a =>
      if sc == .secp256k1 || sc == .eth then
        ({ s with env := { s.env with addrs := (b, a) :: s.env.addrs } }, "addr " ++ toHex a)
      else (s, "bad-op")
    | _, _ => (s, "bad-op")
  | ["acct", addr, bal, nonce] =>
    match ofHex addr, bal.toNat?, nonce.toNat? with
    | some a, some b, some n =>
      let st := s.st
      ({ s with st := { st with bal := (fun x => if x = a then b else st.bal x), nonce := (fun x => if x = a then n else st.nonce x) } }, "ok")
    | _, _, _ => (s, "bad-op")
  | ["val", addr, out, stake, d, p, u] =>
    match ofHex addr, ofHex out, stake.toNat? with
    | some a, some o, some k =>
      let st := s.st
      let v : Validator := ⟨a, o, k, d == "1", p == "1", u == "1"⟩
      ({ s with st := { st with val := fun x => if x = a then some v else st.val x } }, "ok")
    | _, _, _ => (s, "bad-op")
  | ["order", ch, id, seller, amt, locked, recv] =>
    match ch.toNat?, hx id, ofHex seller, amt.toNat?, hx recv with
    | some c, some i, some sl, some am, some r =>
      let st := s.st
      let o : Order := ⟨c, i, sl, am, locked == "1", r⟩
      ({ s with st := { st with order := fun c' i' => if c' = c ∧ i' = i then some o else st.order c' i' } }, "ok")
    | _, _, _, _, _ => (s, "bad-op")
  | ["pool", id, amt] =>
    match id.toNat?, amt.toNat? with
    | some i, some a =>
      let st := s.st
      ({ s with st := { st with pool := fun x => if x = i then a else st.pool x } }, "ok")
    | _, _ => (s, "bad-op")
  | ["lp", ch, addr] =>
    match ch.toNat?, ofHex addr with
    | some c, some a =>
      let st := s.st
      ({ s with st := { st with lp := fun c' a' => (c' = c ∧ a' = a) || st.lp c' a' } }, "ok")
    | _, _ => (s, "bad-op")
  | "content" :: id :: toks =>
    match parseContent toks with
    | some c => ({ s with contents := (id, c) :: s.contents }, "ok")
    | none => (s, "bad-op")
  | ["signed", pub, cid, sig] =>
    match ofHex pub, s.contents.lookup cid with
    | some k, some c => ({ s with env := { s.env with signed := (k, c, sig) :: s.env.signed } }, "ok")
    | _, _ => (s, "bad-op")
  | ["agg", sig, cid, ks, bits] =>
    match s.contents.lookup cid, (ks.splitOn ",").mapM ofHex, parseBits bits with
    | some c, some k, some b => ({ s with env := { s.env with aggs := (sig, c, k, b) :: s.env.aggs } }, "ok")
    | _, _, _ => (s, "bad-op")
  | ["rlp", v2, raw, cid, key] =>
    match s.contents.lookup cid, parseKey key with
    | some c, some (some pk) => ({ s with env := { s.env with rlp := ⟨v2 == "1", raw, c, pk⟩ :: s.env.rlp } }, "ok")
    | _, _ => (s, "bad-op")
  | ["rlpfail", v2, raw, err] => ({ s with env := { s.env with rlpFail := (v2 == "1", raw, err) :: s.env.rlpFail } }, "ok")
  | ["qc", id] => ({ s with env := { s.env with qcs := (id.toUTF8.toList, true) :: s.env.qcs } }, "ok")
  | ["qc", id, "partial"] => ({ s with env := { s.env with qcs := (id.toUTF8.toList, false) :: s.env.qcs } }, "ok")
  | ["cachekey", pk, msg, sig] =>
    match ofHex pk, hx msg, ofHex sig with
    | some p, some m, some g =>
      let k := cacheKey p m g
      (s, s!"len={k.length} h={toHex ((sha256 k).take 8)}")
    | _, _, _ => (s, "bad-op")
  | ["tx", _path, cid, key, sig, newId] =>
    match s.contents.lookup cid, parseKey key, ofHex newId with
    | some c, some pk, some nid =>
      match applyTx s.env s.cfg s.st ⟨c, pk, sig⟩ nid with
      | .error e => (s, e)
      | .ok (signer, log) => (s, render signer log)
    | _, _, _ => (s, "bad-op")
  | _ => (s, "bad-op")

end Driver.C05

def main : IO Unit := Driver.loopStateful ({} : Driver.C05.St) Driver.C05.step
