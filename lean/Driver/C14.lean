import Driver.Common
import Canopy.Model.Evidence
/-! Driver for C14. Stateful per case: `env` sets what the controller answers, `qc` registers a
certificate (symbolic content of its aggregate signature included), the evidence ops refer to
certificates by id; `ledger` sets the ledger, the slashing ops run on it. -/
namespace Driver.C14
open Canopy Canopy.Gate Canopy.Evidence Driver

def u64 (s : String) : Option UInt64 := s.toNat?.map UInt64.ofNat

def parseView (s : String) : Option (Option View) :=
  if s == "nil" then some none else
  match s.splitOn "," with
  | [h, r, p, rh, n, c] => do
    let h ← u64 h; let r ← u64 r; let p ← p.toNat?; let rh ← u64 rh; let n ← u64 n; let c ← u64 c
    pure (some { height := h, round := r, phase := p, rootHeight := rh, networkId := n, chainId := c })
  | _ => none

def parseOptBytes (s : String) : Option (Option Bytes) :=
  if s == "nil" then some none else (ofHex s).map some

def parsePayload (s : String) : Option Payload :=
  match s.splitOn "/" with
  | [v, bh, rh, pk] => do
    let v ← parseView v
    let v ← v
    let bh ← ofHex bh; let rh ← ofHex rh; let pk ← ofHex pk
    pure { header := v, blockHash := bh, resultsHash := rh, proposerKey := pk }
  | _ => none

def parseBlock (s : String) : Option (Option BlockInfo) :=
  if s == "nil" then some none else
  match s.splitOn "," with
  | [d, txs, sz, hb] => do
    let d ← d.toNat?; let txs ← txs.toNat?; let sz ← sz.toNat?; let hb ← ofHex hb
    pure (some { decodes := d == 1, headerOK := true, lastQCNetOK := true, lastQCChainOK := true, networkId := 0, height := 0,
                 hashFromBytes := hb, hashFromHeader := hb, txsSize := txs, size := sz })
  | _ => none

def parseResults (s : String) : Option (Option ResultsInfo) :=
  if s == "nil" then some none else
  match s.splitOn "," with
  | [ok, h] => do
    let ok ← ok.toNat?; let h ← ofHex h
    pure (some { basicOK := ok == 1, hash := h })
  | _ => none

def parsePart (p : String) : Option (KeyId × Payload) :=
  match p.splitOn "@" with
  | [k, pay] => do
    let k ← ofHex k
    let pay ← parsePayload pay
    pure (k, pay)
  | _ => none

def parseSig (s : String) : Option (Option AggSig) :=
  if s == "nil" then some none else
  match s.splitOn "|" with
  | [l, bits, parts, grp] => do
    let l ← l.toNat?
    let bm := if bits == "-" then [] else bits.toList.map (· == '1')
    let ps ← if parts == "-" then some [] else (parts.splitOn ";").mapM parsePart
    let g ← if grp == "-" then some [] else (grp.splitOn ",").mapM ofHex
    pure (some { lenOK := l == 1, parts := ps, group := g, bitmap := bm })
  | _ => none

def parseMembers (s : String) : Option (List Member) :=
  (s.splitOn ",").mapM fun m =>
    match m.splitOn ":" with
    | [k, p] => do
      let k ← ofHex k; let p ← u64 p
      pure { key := k, power := p }
    | _ => none

def parseComs (s : String) : Option (List (UInt64 × List Member)) :=
  if s == "-" then some [] else
  (s.splitOn "+").mapM fun c =>
    match c.splitOn "=" with
    | [rh, ms] => do
      let rh ← u64 rh; let ms ← parseMembers ms
      pure (rh, ms)
    | _ => none

def field (ws : List String) (name : String) : Option String :=
  (ws.find? (·.startsWith (name ++ "="))).map fun w => (w.drop (name.length + 1)).toString

def listOf (s : String) (sep : String) : List String := if s == "-" then [] else s.splitOn sep

def parseU64s (s : String) : Option (List UInt64) := (listOf s "/").mapM u64

/-- `<pubkey hex or ->:<h/h/…>` or `nil` -/
def parseDS (s : String) : Option (Option DS) :=
  if s == "nil" then some none else
  match s.splitOn ":" with
  | [k, hs] => do
    let k ← ofHex k; let hs ← parseU64s hs
    pure (some { id := k, heights := hs })
  | _ => none

def parseDSList (s : String) : Option (List (Option DS)) := (listOf s ",").mapM parseDS

structure State where
  env : Env := { networkId := 0, chainId := 0, rootHeight := 0, globalMaxBlockSize := 256 * 1000 * 1000, committeeAt := fun _ => none,
                 minEvidenceAt := fun _ => none, alreadySlashed := fun _ _ => false }
  qcs : List (String × QC) := []
  pool : List String := []          -- evidence descriptors accepted by `add` (the de-duplicator)
  P : Params := { committeeScoped := true, maxSlash := 0, dsPercent := 0 }
  addrOf : List (KeyId × Addr) := []
  L : Ledger := Ledger.empty
  cd : CommitteeData := {}   -- committee data of the nested chain of the certificate-results cases

def lookupQC (st : State) (id : String) : Option (Option QC) :=
  if id == "nil" then some none else (st.qcs.lookup id).map some

/-- `<idA>~<idB>` or `nil` -/
def parseDSE (st : State) (s : String) : Option (Option DSE) :=
  if s == "nil" then some none else
  match s.splitOn "~" with
  | [a, b] => do
    let a ← lookupQC st a; let b ← lookupQC st b
    pure (some { voteA := a, voteB := b })
  | _ => none

def parseDSEs (st : State) (s : String) : Option (List (Option DSE)) := (listOf s ",").mapM (parseDSE st)

def showDS (d : DS) : String := s!"{hexOrDash d.id}:{"/".intercalate (d.heights.map (fun h => toString h.toNat))}"

def showDSs (l : List DS) : String := if l.isEmpty then "-" else ",".intercalate (l.map showDS)

def showVal (L : Ledger) (a : Addr) : String :=
  match L.vals a with
  | none => s!"{toHex a}:-"
  | some v => s!"{toHex a}:{v.stake.toNat}:{if v.committees.isEmpty then "-" else "/".intercalate (v.committees.map (fun c => toString c.toNat))}:{if v.unstaking then "u" else "s"}"

def step (st : State) (line : String) : State × String :=
  match words line with
  | "env" :: rest =>
    let r : Option State := do
      let net ← (field rest "net") >>= u64
      let chain ← (field rest "chain") >>= u64
      let root ← (field rest "root") >>= u64
      let coms ← (field rest "coms") >>= parseComs
      let mins ← (field rest "mins") >>= fun s => (listOf s ",").mapM fun m =>
        match m.splitOn ":" with
        | [rh, v] => do let rh ← u64 rh; let v ← u64 v; pure (rh, v)
        | _ => none
      let slashed ← (field rest "slashed") >>= fun s => (listOf s ",").mapM fun m =>
        match m.splitOn "@" with
        | [k, h] => do let k ← ofHex k; let h ← u64 h; pure (k, h)
        | _ => none
      pure { st with env := { networkId := net, chainId := chain, rootHeight := root, globalMaxBlockSize := 256 * 1000 * 1000,
                              committeeAt := fun r => coms.lookup r, minEvidenceAt := fun r => mins.lookup r,
                              alreadySlashed := fun k h => slashed.contains (k, h) } }
    match r with
    | some s => (s, "ok")
    | none => (st, "bad-op")
  | "qc" :: rest =>
    let r : Option State := do
      let id ← field rest "id"
      let hdr ← (field rest "hdr") >>= parseView
      let bh ← (field rest "bh") >>= parseOptBytes
      let rh ← (field rest "rh") >>= parseOptBytes
      let pk ← (field rest "pk") >>= parseOptBytes
      let blk ← (field rest "blk") >>= parseBlock
      let res ← (field rest "res") >>= parseResults
      let sig ← (field rest "sig") >>= parseSig
      let q : QC := { header := hdr, blockHash := bh, resultsHash := rh, proposerKey := pk, block := blk, results := res, signature := sig }
      pure { st with qcs := (id, q) :: st.qcs }
    match r with
    | some s => (s, "ok")
    | none => (st, "bad-op")
  | ["basic", x] =>
    match parseDSE st x with
    | some x => (st, match checkBasic x with | none => "ok" | some e => s!"err:{e}")
    | none => (st, "bad-op")
  | "check" :: x :: rest =>
    -- `DoubleSignEvidence.Check` called directly with an explicit minimum (on evidence that passed CheckBasic)
    let r : Option String := do
      let x ← parseDSE st x
      let m ← (field rest "min") >>= u64
      let rh ← (field rest "com") >>= u64
      match unpack x with
      | .error e => pure s!"err:{e}"
      | .ok (a, b, ha, hb) =>
        match st.env.committeeAt rh with
        | none => none
        | some ms => pure (match check st.env a b ha hb ms m with | none => "ok" | some e => s!"err:{e}")
    (st, r.getD "bad-op")
  | ["process", xs] =>
    match parseDSEs st xs with
    | some xs => (st, match processDSE st.env xs with | .ok l => s!"ok {showDSs l}" | .error e => s!"err:{e}")
    | none => (st, "bad-op")
  | ["add", x, key] =>
    -- `key=` is the content identity of the stripped evidence (what the de-duplicator hashes)
    match parseDSE st x with
    | some ev =>
      let dup := st.pool.contains key
      match addDSE st.env dup ev with
      | .added => ({ st with pool := key :: st.pool }, "added")
      | .duplicate => (st, "duplicate")
      | .rejected e => (st, s!"err:{e}")
    | none => (st, "bad-op")
  | "validate" :: rest =>
    let r : Option String := do
      let sl ← field rest "slash"
      let slash ← if sl == "none" then some none else (parseDSList sl).map some
      let be ← (field rest "be") >>= parseDSEs st
      pure (match validateByzantineEvidence st.env slash be with | none => "ok" | some e => s!"err:{e}")
    (st, r.getD "bad-op")
  | "local" :: rest =>
    -- `GetLocalDSE` with one stored partial QC, the leader message of (round, phase+1) and the committed certificate
    let r : Option String := do
      let cur ← (field rest "cur") >>= u64
      let pqc ← (field rest "pqc") >>= lookupQC st
      let pqc ← pqc
      let hd ← pqc.header
      let prop ← (field rest "prop") >>= lookupQC st
      let cert ← (field rest "cert") >>= lookupQC st
      let pr ← (field rest "propAt") >>= fun s =>
        match s.splitOn "," with
        | [r, p] => do let r ← u64 r; let p ← p.toNat?; pure (r, p)
        | _ => none
      let proposalAt : UInt64 → Nat → Option QC := fun r p => if r == pr.1 && p == pr.2 then prop else none
      pure (if localDSE st.env cur pqc hd proposalAt (fun _ => cert) then "n=1" else "n=0")
    (st, r.getD "bad-op")
  | "wiredmin" :: rest =>
    let r : Option String := do
      let cur ← (field rest "cur") >>= u64
      let ub ← (field rest "ub") >>= u64
      let h ← (field rest "h") >>= u64
      pure (toString (wiredMinEvidence cur ub h).toNat)
    (st, r.getD "bad-op")
  | "ledger" :: rest =>
    let r : Option State := do
      let sc ← (field rest "scoped") >>= (·.toNat?)
      let mx ← (field rest "max") >>= u64
      let pct ← (field rest "pct") >>= u64
      let minS ← (field rest "min") >>= u64
      let keys ← (field rest "keys") >>= fun s => (listOf s ",").mapM fun m =>
        match m.splitOn "=" with
        | [k, a] => do let k ← ofHex k; let a ← ofHex a; pure (k, a)
        | _ => none
      let vals ← (field rest "vals") >>= fun s => (listOf s ",").mapM fun m =>
        match m.splitOn ":" with
        | [a, stake, cs] => do
          let a ← ofHex a; let stake ← u64 stake; let cs ← parseU64s cs
          pure (a, ({ stake := stake, committees := cs, unstaking := false } : Val))
        | _ => none
      pure { st with P := { committeeScoped := sc == 1, maxSlash := mx, dsPercent := pct, minStake := minS }, addrOf := keys,
                     L := { Ledger.empty with vals := fun a => vals.lookup a } }
    match r with
    | some s => (s, "ok")
    | none => (st, "bad-op")
  | "certres" :: rest =>
    -- a certificate-results transaction of a nested committee applied on the root chain
    let r : Option (State × String) := do
      let q ← (field rest "qc") >>= lookupQC st
      let q ← q
      let sl ← field rest "slash"
      let slash ← if sl == "none" then some none else (parseDSList sl).map some
      let signer ← (field rest "signer") >>= ofHex
      let net ← (field rest "net") >>= u64
      let coms ← (field rest "com") >>= parseComs
      let env : Env := { networkId := net, chainId := 0, rootHeight := 0, globalMaxBlockSize := 256 * 1000 * 1000,
                         committeeAt := fun r => coms.lookup r, minEvidenceAt := fun _ => none, alreadySlashed := fun _ _ => false }
      match certificateResults env st.P (fun k => st.addrOf.lookup k) st.L st.cd q (signer == q.proposerKey.getD []) slash with
      | .ok (L', cd') => pure ({ st with L := L', cd := cd' }, "ok")
      | .error e => pure (st, s!"err:{e}")
    r.getD (st, "bad-op")
  | "hds" :: rest =>
    -- `HandleDoubleSigners` / `HandleByzantine` with these slash recipients (`ds=none`: no slash recipients)
    let r : Option (State × String) := do
      let chain ← (field rest "chain") >>= u64
      let ds ← field rest "ds"
      if ds == "none" then pure (st, "ok") else
      let dss ← parseDSList ds
      match handleDoubleSigners st.P (fun k => st.addrOf.lookup k) st.L chain dss with
      | .ok L' => pure ({ st with L := L' }, "ok")
      | .error e => pure (st, s!"err:{e}")
    r.getD (st, "bad-op")
  | "slash" :: rest =>
    let r : Option (State × String) := do
      let chain ← (field rest "chain") >>= u64
      let pct ← (field rest "pct") >>= u64
      let addrs ← (field rest "addrs") >>= fun s => (listOf s ",").mapM ofHex
      pure ({ st with L := slashValidators st.P st.L chain pct addrs }, "ok")
    r.getD (st, "bad-op")
  | ["endblock"] => ({ st with L := newBlock st.L }, "ok")
  | "dump" :: rest =>
    let r : Option String := do
      let addrs ← (field rest "addrs") >>= fun s => (listOf s ",").mapM ofHex
      let pairs ← (field rest "pairs") >>= fun s => (listOf s ",").mapM fun m =>
        match m.splitOn "@" with
        | [a, h] => do let a ← ofHex a; let h ← u64 h; pure (a, h)
        | _ => none
      let trs ← (field rest "tr") >>= fun s => (listOf s ",").mapM fun m =>
        match m.splitOn "@" with
        | [a, c] => do let a ← ofHex a; let c ← u64 c; pure (a, c)
        | _ => none
      let vs := " ".intercalate (addrs.map (showVal st.L))
      let ix := String.ofList (pairs.map fun (a, h) => if st.L.indexed a h then '1' else '0')
      let tr := ",".intercalate (trs.map fun (a, c) => toString (st.L.tracker a c).toNat)
      pure s!"vals {vs} idx {if ix.isEmpty then "-" else ix} tr {if tr.isEmpty then "-" else tr}"
    (st, r.getD "bad-op")
  | _ => (st, "bad-op")

end Driver.C14

def main : IO Unit := Driver.loopStateful ({} : Driver.C14.State) Driver.C14.step
