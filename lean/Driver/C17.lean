import Driver.Common
import Canopy.Model.Bytes
import Canopy.Model.Sha256
import Canopy.Model.Transport
import Canopy.Model.Handshake
/-! Driver for C17: one direction of an established `EncryptedConn` under a fault schedule
(stateful per case), and handshake scenarios (one line each). -/
namespace Driver.C17
open Canopy Canopy.Transport Driver

/-- short byte strings in hex, long ones as `len:first 8 bytes of SHA-256` -/
def canon (b : Bytes) : String :=
  if b.length ≤ 24 then hexOrDash b else toString b.length ++ ":" ++ toHex ((sha256 b).take 8)

def showRes : ReadRes → String
  | .data b => "data " ++ canon b
  | .err .decrypt => "err:decrypt"
  | .err .tooLarge => "err:too-large"
  | .err .eof => "err:eof"
  | .err .short => "err:short"
  | .blocked => "blocked"

def nat? (s : String) : Option Nat := s.toNat?

def faultRes (d : Dir) (f : Fault) : Dir × String :=
  match d.fault f with
  | some d' => (d', "ok " ++ toString d'.ch.wire.length)
  | none => (d, "bad-index")

/-- a frame sealed by a peer that holds the key but does not follow `Write`: arbitrary header value -/
def rawFrame (d : Dir) (hdr len seed : Nat) : Dir :=
  let plain := (le32 hdr ++ pattern seed len ++ List.replicate (dataMax - len) 0).take frameSize
  let w := Wire.sealed d.w.key d.w.nonce plain
  { d with w := { d.w with nonce := Gen.Transport.incrementNonce d.w.nonce },
           ch := { d.ch with wire := d.ch.wire ++ [w] }, hist := d.hist ++ [w] }

def stepStream (d : Dir) (ws : List String) : Dir × String :=
  match ws with
  | ["w", seed, len] =>
    match nat? seed, nat? len with
    | some s, some l =>
      if d.ch.closed then (d, "err:write") else -- the underlying connection is gone: ErrFailedWrite
      let (d', n, k) := d.write [] (pattern s l)
      (d', "ok " ++ toString n ++ " " ++ toString k)
    | _, _ => (d, "bad-op")
  | ["r", n] =>
    match nat? n with
    | some n => let (res, d') := d.read n; (d', showRes res)
    | none => (d, "bad-op")
  | ["rawframe", hdr, len, seed] =>
    match nat? hdr, nat? len, nat? seed with
    | some h, some l, some s => if l ≤ dataMax then let d' := rawFrame d h l s; (d', "ok " ++ toString d'.ch.wire.length) else (d, "bad-op")
    | _, _, _ => (d, "bad-op")
  | ["flip", i, _bit] => match nat? i with
    | some i => faultRes d (.flip i 0)
    | none => (d, "bad-op")
  | ["swap", i, j] => match nat? i, nat? j with
    | some i, some j => faultRes d (.swap i j)
    | _, _ => (d, "bad-op")
  | ["dup", i] => match nat? i with
    | some i => faultRes d (.dup i)
    | none => (d, "bad-op")
  | ["replay", h, j] => match nat? h, nat? j with
    | some h, some j => faultRes d (.replay h j)
    | _, _ => (d, "bad-op")
  | ["drop", i] => match nat? i with
    | some i => faultRes d (.drop i)
    | none => (d, "bad-op")
  | ["inject", i] => match nat? i with
    | some i => faultRes d (.inject i 0)
    | none => (d, "bad-op")
  | ["trunc", i, mid] => match nat? i, nat? mid with
    | some i, some m => faultRes d (.trunc i (m != 0))
    | _, _ => (d, "bad-op")
  | ["close"] => faultRes d .close
  | ["set-counters", c] =>
    -- verification hook: both ends of this direction are fast-forwarded to frame counter c (nothing in flight)
    match nat? c with
    | some c =>
      if d.ch.wire = [] ∧ d.r.unread = [] then
        ({ d with w := { d.w with nonce := UInt64.ofNat c }, r := { d.r with nonce := UInt64.ofNat c } }, "ok")
      else (d, "bad-state")
    | none => (d, "bad-op")
  | ["inc", c] =>
    match nat? c with
    | some c => (d, toString (Gen.Transport.incrementNonce (UInt64.ofNat c)).toNat)
    | none => (d, "bad-op")
  | ["counters"] => (d, toString d.w.nonce.toNat ++ " " ++ toString d.r.nonce.toNat)
  | ["replay-hs", dir, i, j] =>
    -- a ciphertext frame recorded during the encrypted part of the HANDSHAKE of this connection, spliced in at
    -- position j: frame i of this direction (dir 0: same key, nonce i) or of the opposite one (dir 1: other key)
    match nat? dir, nat? i, nat? j with
    | some dr, some i, some j =>
      if i < Gen.Transport.handshakeFrames ∧ j ≤ d.ch.wire.length ∧ dr ≤ 1 then
        let d' := { d with ch := { d.ch with wire := insertAt d.ch.wire j (.sealed (d.w.key + dr) (nonceAt 0 i) (mkFrame [] [])) } }
        (d', "ok " ++ toString d'.ch.wire.length)
      else (d, "bad-index")
    | _, _, _ => (d, "bad-op")
  | ["other-key", i] =>
    -- a frame of the opposite direction / another session spliced in at position i
    match nat? i with
    | some i =>
      if i ≤ d.ch.wire.length then
        let d' := { d with ch := { d.ch with wire := insertAt d.ch.wire i (.sealed (d.w.key + 1) 0 (mkFrame [] [])) } }
        (d', "ok " ++ toString d'.ch.wire.length)
      else (d, "bad-index")
    | none => (d, "bad-op")
  | _ => (d, "bad-op")

/-! ### handshake scenarios -/
open Canopy.Handshake Canopy.Handshake.Term

def rejectOwn : Bool := Gen.Transport.rejectsOwnKey

def who (t : Term) : String :=
  match t with
  | pk (atom 1) => "A"
  | pk (atom 2) => "B"
  | pk (atom 3) => "M"
  | _ => "?"

def showHs : Except HsErr Term → String
  | .ok t => "ok:" ++ who t
  | .error .dh => "err:bad-eph"
  | .error .sigSwap => "err:sigswap"
  | .error .invalidPub => "err:invalid-pub"
  | .error .ownKey => "refused"
  | .error .challenge => "err:challenge"
  | .error .metaSwap => "err:metaswap"
  | .error .incompatible => "err:incompatible"

/-- payload of message 2 / 3 as the attacker re-seals them -/
def sigPayload (id : Nat) (secret : Term) : Term := pair (pk (atom id)) (sig (atom id) (chal secret))
def metaPayload (id net chain : Nat) : Term := pair (pmeta net chain) (sig (atom id) (pmeta net chain))

def hs (ws : List String) : String :=
  -- atoms: identities A=1 B=2 M=3; ephemerals a=11 b=12 m=13 m'=14
  let A (net chain : Nat) : Party := ⟨1, 11, net, chain⟩
  let B (net chain : Nat) : Party := ⟨2, 12, net, chain⟩
  match ws with
  | ["honest", nA, cA, nB, cB] =>
    match nat? nA, nat? cA, nat? nB, nat? cB with
    | some nA, some cA, some nB, some cB =>
      let a := A nA cA; let b := B nB cB
      "A=" ++ showHs (a.finish rejectOwn b.msg1 (b.msg2 a.eph) (b.msg3 a.eph)) ++
      " B=" ++ showHs (b.finish rejectOwn a.msg1 (a.msg2 b.eph) (a.msg3 b.eph))
    | _, _, _, _ => "bad-op"
  | ["relay"] =>
    let a := A 1 1; let b := B 1 1
    "A=" ++ showHs (a.finish rejectOwn b.msg1 (b.msg2 a.eph) (b.msg3 a.eph)) ++
    " B=" ++ showHs (b.finish rejectOwn a.msg1 (a.msg2 b.eph) (a.msg3 b.eph))
  | ["keysub-forward"] =>
    -- M swaps in its own ephemerals (13 towards A, 14 towards B), opens each side's identity
    -- messages with the keys it shares with that side and re-seals them for the other side
    let a := A 1 1; let b := B 1 1
    let toA1 := enc (recvKey a.eph 13) 0 (sigPayload 2 (mkDh b.eph 14))
    let toA2 := enc (recvKey a.eph 13) 1 (metaPayload 2 1 1)
    let toB1 := enc (recvKey b.eph 14) 0 (sigPayload 1 (mkDh a.eph 13))
    let toB2 := enc (recvKey b.eph 14) 1 (metaPayload 1 1 1)
    "A=" ++ showHs (a.finish rejectOwn (pk (atom 13)) toA1 toA2) ++
    " B=" ++ showHs (b.finish rejectOwn (pk (atom 14)) toB1 toB2)
  | ["keysub-own"] =>
    let a := A 1 1; let b := B 1 1
    let m1 : Party := ⟨3, 13, 1, 1⟩; let m2 : Party := ⟨3, 14, 1, 1⟩
    "A=" ++ showHs (a.finish rejectOwn m1.msg1 (m1.msg2 a.eph) (m1.msg3 a.eph)) ++
    " B=" ++ showHs (b.finish rejectOwn m2.msg1 (m2.msg2 b.eph) (m2.msg3 b.eph))
  | ["reflect"] =>
    -- M (no identity key at all) opens A's two identity frames and sends them back
    let a := A 1 1
    let f1 := enc (recvKey a.eph 13) 0 (sigPayload 1 (mkDh a.eph 13))
    let f2 := enc (recvKey a.eph 13) 1 (metaPayload 1 1 1)
    "A=" ++ showHs (a.finish rejectOwn (pk (atom 13)) f1 f2)
  | ["wrongsig"] =>
    -- peer presents B's public key with M's signature over the right challenge
    let a := A 1 1
    let f1 := enc (recvKey a.eph 13) 0 (pair (pk (atom 2)) (sig (atom 3) (chal (mkDh a.eph 13))))
    "A=" ++ showHs (a.finish rejectOwn (pk (atom 13)) f1 (enc (recvKey a.eph 13) 1 (metaPayload 2 1 1)))
  | ["stalesig"] =>
    -- peer presents B's genuine signature from ANOTHER session (B with M, secret dh 12 14)
    let a := A 1 1
    let f1 := enc (recvKey a.eph 13) 0 (sigPayload 2 (mkDh 12 14))
    "A=" ++ showHs (a.finish rejectOwn (pk (atom 13)) f1 (enc (recvKey a.eph 13) 1 (metaPayload 2 1 1)))
  | ["stalesig-warm", _scheme, _len] =>
    -- the victim has VERIFIED (and remembers) a genuine signature of identity B over another message of
    -- that length; the peer presents B's public key with that signature. A remembered verification of
    -- another message is not a verification of this session's challenge (`sigcache_hit_sound`).
    let a := A 1 1
    let f1 := enc (recvKey a.eph 13) 0 (pair (pk (atom 2)) (sig (atom 2) (pmeta 77 77)))
    "A=" ++ showHs (a.finish rejectOwn (pk (atom 13)) f1 (enc (recvKey a.eph 13) 1 (metaPayload 2 1 1)))
  | ["stalesig-warm-session"] =>
    let a := A 1 1
    let f1 := enc (recvKey a.eph 13) 0 (sigPayload 2 (mkDh 12 14))
    "A=" ++ showHs (a.finish rejectOwn (pk (atom 13)) f1 (enc (recvKey a.eph 13) 1 (metaPayload 2 1 1)))
  | ["keysub-forward-warm"] =>
    let a := A 1 1; let b := B 1 1
    let toA1 := enc (recvKey a.eph 13) 0 (sigPayload 2 (mkDh b.eph 14))
    let toA2 := enc (recvKey a.eph 13) 1 (metaPayload 2 1 1)
    let toB1 := enc (recvKey b.eph 14) 0 (sigPayload 1 (mkDh a.eph 13))
    let toB2 := enc (recvKey b.eph 14) 1 (metaPayload 1 1 1)
    "A=" ++ showHs (a.finish rejectOwn (pk (atom 13)) toA1 toA2) ++
    " B=" ++ showHs (b.finish rejectOwn (pk (atom 14)) toB1 toB2)
  | ["metaforged"] =>
    -- M authenticates as itself but sends a meta signed by another key
    let a := A 1 1
    let f1 := enc (recvKey a.eph 13) 0 (sigPayload 3 (mkDh a.eph 13))
    let f2 := enc (recvKey a.eph 13) 1 (pair (pmeta 1 1) (sig (atom 2) (pmeta 1 1)))
    "A=" ++ showHs (a.finish rejectOwn (pk (atom 13)) f1 f2)
  | ["metaraw", n, c] =>
    match nat? n, nat? c with
    | some n, some c =>
      let a := A 1 1
      let m : Party := ⟨3, 13, n, c⟩
      "A=" ++ showHs (a.finish rejectOwn m.msg1 (m.msg2 a.eph) (m.msg3 a.eph))
    | _, _ => "bad-op"
  | ["bad-eph", _] =>
    let a := A 1 1
    "A=" ++ showHs (a.finish rejectOwn (pmeta 0 0) (pmeta 0 0) (pmeta 0 0))
  | ["garbage-sigframe"] =>
    let a := A 1 1
    "A=" ++ showHs (a.finish rejectOwn (pk (atom 13)) (pmeta 0 0) (pmeta 0 0))
  | ["reflect-ciphertext"] =>
    -- transparent relay that returns A's own sealed identity frames to A (no key known)
    let a := A 1 1; let b := B 1 1
    "A=" ++ showHs (a.finish rejectOwn b.msg1 (a.msg2 b.eph) (a.msg3 b.eph))
  | _ => "bad-op"

def step (d : Dir) (line : String) : Dir × String :=
  match words line with
  | "hs" :: rest => (d, hs rest)
  | ["const", name] =>
    (d, match name with
      | "MaxDataSize" => toString dataMax
      | "LengthHeaderSize" => toString headerSize
      | "FrameSize" => toString frameSize
      | "EncryptedFrameSize" => toString encFrameSize
      | "ChallengeSize" => toString Gen.Transport.challengeSize
      | "AEADKeySize" => toString Gen.Transport.aEADKeySize
      | "AEADNonceSize" => toString Gen.Transport.aEADNonceSize
      | "HKDFSize" => toString Gen.Transport.hKDFSize
      | "handshakeFrames" => toString Gen.Transport.handshakeFrames
      | _ => "bad-op")
  | ws => stepStream d ws

end Driver.C17

/-- every case starts on a freshly established connection: after the handshake frames when the session
keeps the handshake's AEAD states (generated fact), at nonce 0 when the code re-creates them -/
def Driver.C17.start : Canopy.Transport.Dir :=
  if Canopy.Gen.Transport.sessionKeepsHandshakeState then
    Canopy.Transport.Dir.afterHandshake 1 Canopy.Gen.Transport.handshakeFrames
  else Canopy.Transport.Dir.init 1

def main : IO Unit := Driver.loopStateful Driver.C17.start Driver.C17.step
