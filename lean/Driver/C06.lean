import Driver.Common
import Canopy.Model.Replay
import Canopy.Gen.Proto
import Canopy.Model.C06Witness
/-! Driver for C06: the admission path of the state machine over the M-proto decoder.
Stateful: every `# case` starts from an empty environment and chain. -/
namespace Driver.C06
open Canopy Canopy.Proto Canopy.Replay Driver

structure S where
  env : Env
  chain : Chain

def S.init : S :=
  ⟨Env.empty, ⟨0, 0, 0, 0, false, Gen.Proto.canonicalTxEnforced, Gen.Proto.canonicalKeyEnforced, Gen.Proto.multisigPaddingEnforced, [], [], []⟩⟩

def hexes (ws : List String) : Option (List Bytes) := ws.mapM ofHex

def showAccounts (c : Chain) : String :=
  String.intercalate " " (c.accounts.map fun a => s!"{hexOrDash a.addr}={a.balance}/{a.nonce}")

def bool01 (s : String) : Option Bool := if s == "1" then some true else if s == "0" then some false else none

def step (s : S) (line : String) : S × String :=
  match words line with
  | ["cfg", net, chain, minFee, legacy, height] =>
    match net.toNat?, chain.toNat?, minFee.toNat?, bool01 legacy, height.toNat? with
    | some n, some c, some f, some l, some h =>
      ({ s with chain := { s.chain with networkId := n, chainId := c, minFee := f, legacyRlpDisabled := l, height := h } }, "ok")
    | _, _, _, _, _ => (s, "bad-op")
  | ["acct", a, bal, nonce] =>
    match ofHex a, bal.toNat?, nonce.toNat? with
    | some a, some b, some n => ({ s with chain := s.chain.setAccount ⟨a, b, n⟩ }, "ok")
    | _, _, _ => (s, "bad-op")
  | ["key", k, a] =>
    match ofHex k, ofHex a with
    | some k, some a => ({ s with env := { s.env with keys := s.env.keys ++ [(k, a)] } }, "ok")
    | _, _ => (s, "bad-op")
  | ["sig", k, m, g] =>
    match ofHex k, ofHex m, ofHex g with
    | some k, some m, some g => ({ s with env := { s.env with sigs := (k, m, g) :: s.env.sigs } }, "ok")
    | _, _, _ => (s, "bad-op")
  | ["rlp", v2, tx, h, canonTx] =>
    -- the last word is the hex of the converted transaction, or `err:<class>` when the conversion fails
    let conv : Option (Bytes × Option Rej) :=
      if canonTx.startsWith "err:" then (Rej.ofString (canonTx.drop 4).toString).map fun r => ([], some r)
      else (ofHex canonTx).map fun c => (c, none)
    match bool01 v2, ofHex tx, ofHex h, conv with
    | some v, some tx, some h, some (c, err) =>
      ({ s with env := { s.env with rlp := ⟨v, tx, h, c, err⟩ :: s.env.rlp } }, "ok")
    | _, _, _, _ => (s, "bad-op")
  | ["height", h] =>
    match h.toNat? with
    | some h => ({ s with chain := { s.chain with height := h } }, "ok")
    | none => (s, "bad-op")
  | "block" :: raws =>
    match hexes raws with
    | none => (s, "bad-op")
    | some txs =>
      match applyBlock s.env s.chain txs with
      | none => (s, "blk invalid-dup")
      | some (c', outs) =>
        ({ s with chain := c' },
         "blk " ++ String.intercalate " " (outs.map TxOutcome.toString) ++ " | " ++ showAccounts c')
  | ["decode", raw] =>
    match ofHex raw with
    | none => (s, "bad-op")
    | some b =>
      match decodeTx b with
      | some t => (s, "tx " ++ hexOrDash (canon t) ++ " sb " ++ hexOrDash (signBytes t))
      | none =>
        -- say why, as far as the real code distinguishes it: unknown fields vs. malformed
        match (if protoMaxMessageBytes < b.length || !preflight b then none else decodeLoose b) with
        | some (_, true) => (s, "err unknown-fields")
        | _ => (s, "err")
  | ["preflight", raw] =>
    match ofHex raw with
    | some b => (s, if preflight b then "ok" else "err")
    | none => (s, "bad-op")
  | ["txid", raw] =>
    match ofHex raw with
    | some b => (s, if txId b == sha256 b then hexOrDash (txId b) else "sha256-implementations-differ")
    | none => (s, "bad-op")
  | ["witness", name, r1, r2] =>
    match ofHex r1, ofHex r2 with
    | some a, some b =>
      match Canopy.C06W.witnesses.find? (·.1 == name) with
      | some (_, w1, w2) => (s, if a == w1 && b == w2 then "witness ok" else "witness differs")
      | none => (s, "bad-op")
    | _, _ => (s, "bad-op")
  | _ => (s, "bad-op")

end Driver.C06

def main : IO Unit := Driver.loopStateful Driver.C06.S.init Driver.C06.step
