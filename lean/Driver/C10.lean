import Driver.Common
import Canopy.Model.Store
/-! Driver for C10/M-store: stateful; one op line in, one canonical result line out.
The state is the *implementation model* (`Canopy.Store.State`: physical pebble key list, txn layers,
copies, held read-only views). -/
namespace Driver.C10
open Canopy Canopy.Store Driver

def showGet : Option (Option Bytes) → String
  | none => "panic"
  | some none => "v -"
  | some (some v) => "v " ++ hexOrDash v

def showIter : Option (List (Bytes × Bytes)) → String
  | none => "panic"
  | some kvs => "n " ++ toString kvs.length ++
      String.join (kvs.map fun kv => " " ++ hexOrDash kv.1 ++ "=" ++ hexOrDash kv.2)

def parseBool (s : String) : Option Bool :=
  if s == "0" then some false else if s == "1" then some true else none

/-- state changes go through `State.apply` (the function the C10 theorems are about); the result line
only reports what the real API reports -/
def step (s : State) (line : String) : State × String :=
  let bad := (s, "bad-op")
  match words line with
  | ["set", k, v] =>
    match ofHex k, ofHex v with
    | some k, some v => (s.apply (.set k v), "ok")
    | _, _ => bad
  | ["del", k] =>
    match ofHex k with
    | some k => (s.apply (.del k), "ok")
    | none => bad
  | ["get", k] =>
    match ofHex k with
    | some k => (s, showGet (s.handle.get k))
    | none => bad
  | ["iter", p, r] =>
    match ofHex p, parseBool r with
    | some p, some r => (s, showIter (s.handle.iter p r))
    | _, _ => bad
  | ["nest"] => (s.apply .nest, "ok " ++ toString (s.main.length + 1))
  | ["flush"] => if s.main.length ≥ 2 then (s.apply .flush, "ok") else bad
  | ["discard"] => if s.main.length ≥ 2 then (s.apply .discard, "ok") else bad
  | ["pop"] => if s.main.length ≥ 2 then (s.apply .pop, "ok " ++ toString (s.main.length - 1)) else bad
  | ["commit"] =>
    if s.main.length == 1 then let s' := s.apply .commit; (s', "ok " ++ toString s'.version) else bad
  | ["rollback", t] =>
    match t.toNat? with
    | some t =>
      if s.main.length == 1 then
        match s.rollback t with
        | some _ => let s' := s.apply (.rollback t); (s', "ok " ++ toString s'.version)
        | none => (s, "err")
      else bad
    | none => bad
  | ["copy"] => (s.apply .copy, "ok " ++ toString s.copies.length)
  | ["cset", i, k, v] =>
    match i.toNat?, ofHex k, ofHex v with
    | some i, some k, some v => if i < s.copies.length then (s.apply (.cset i k v), "ok") else bad
    | _, _, _ => bad
  | ["cdel", i, k] =>
    match i.toNat?, ofHex k with
    | some i, some k => if i < s.copies.length then (s.apply (.cdel i k), "ok") else bad
    | _, _ => bad
  | ["cget", i, k] =>
    match i.toNat?, ofHex k with
    | some i, some k =>
      match s.copies[i]? with
      | some h => (s, showGet (h.get k))
      | none => bad
    | _, _ => bad
  | ["citer", i, p, r] =>
    match i.toNat?, ofHex p, parseBool r with
    | some i, some p, some r =>
      match s.copies[i]? with
      | some h => (s, showIter (h.iter p r))
      | none => bad
    | _, _, _ => bad
  | ["readat", v, k] =>
    match v.toNat?, ofHex k with
    | some v, some k => (s, showGet ((s.readOnly v).get k))
    | _, _ => bad
  | ["iterat", v, p, r] =>
    match v.toNat?, ofHex p, parseBool r with
    | some v, some p, some r => (s, showIter ((s.readOnly v).iter p r))
    | _, _, _ => bad
  | ["hold", v] =>
    match v.toNat? with
    | some v => (s.apply (.hold v), "ok " ++ toString s.held.length)
    | none => bad
  | ["hget", i, k] =>
    match i.toNat?, ofHex k with
    | some i, some k =>
      match s.held[i]? with
      | some h => (s, showGet (h.get k))
      | none => bad
    | _, _ => bad
  | ["hiter", i, p, r] =>
    match i.toNat?, ofHex p, parseBool r with
    | some i, some p, some r =>
      match s.held[i]? with
      | some h => (s, showIter (h.iter p r))
      | none => bad
    | _, _, _ => bad
  | ["version"] => (s, "ok " ++ toString s.version)
  | _ => bad

end Driver.C10

def main : IO Unit := Driver.loopStateful ({} : Canopy.Store.State) Driver.C10.step
