import Driver.Common
import Canopy.Model.Store
import Canopy.Model.Indexer
/-! Driver for C10/M-store: stateful; one op line in, one canonical result line out.
The state is the *implementation model* (`Canopy.Store.State`: physical pebble key list, txn layers,
copies, held read-only views). -/
namespace Driver.C10
open Canopy Canopy.Store Driver

def showGet : Option (Option Bytes) → String
  | none => "panic"
  | some none => "v -"
  | some (some v) => "v " ++ hexOrDash v

def showIter : Option (List (Bytes × Bytes)) → String
  | none => "panic"
  | some kvs => "n " ++ toString kvs.length ++
      String.join (kvs.map fun kv => " " ++ hexOrDash kv.1 ++ "=" ++ hexOrDash kv.2)

def parseBool (s : String) : Option Bool :=
  if s == "0" then some false else if s == "1" then some true else none

/-- state changes go through `State.apply` (the function the C10 theorems are about); the result line
only reports what the real API reports -/
def stepSt (s : State) (line : String) : State × String :=
  let bad := (s, "bad-op")
  match words line with
  | ["set", k, v] =>
    match ofHex k, ofHex v with
    | some k, some v => (s.apply (.set k v), "ok")
    | _, _ => bad
  | ["del", k] =>
    match ofHex k with
    | some k => (s.apply (.del k), "ok")
    | none => bad
  | ["get", k] =>
    match ofHex k with
    | some k => (s, showGet (s.handle.get k))
    | none => bad
  | ["iter", p, r] =>
    match ofHex p, parseBool r with
    | some p, some r => (s, showIter (s.handle.iter p r))
    | _, _ => bad
  | ["nest"] => (s.apply .nest, "ok " ++ toString (s.main.length + 1))
  | ["flush"] => if s.main.length ≥ 2 then (s.apply .flush, "ok") else bad
  | ["discard"] => if s.main.length ≥ 2 then (s.apply .discard, "ok") else bad
  | ["pop"] => if s.main.length ≥ 2 then (s.apply .pop, "ok " ++ toString (s.main.length - 1)) else bad
  | ["commit"] =>
    if s.main.length == 1 then let s' := s.apply .commit; (s', "ok " ++ toString s'.version) else bad
  | ["rollback", t] =>
    match t.toNat? with
    | some t =>
      if s.main.length == 1 then
        match s.rollback t with
        | some _ => let s' := s.apply (.rollback t); (s', "ok " ++ toString s'.version)
        | none => (s, "err")
      else bad
    | none => bad
  | ["copy"] => (s.apply .copy, "ok " ++ toString s.copies.length)
  | ["cset", i, k, v] =>
    match i.toNat?, ofHex k, ofHex v with
    | some i, some k, some v => if i < s.copies.length then (s.apply (.cset i k v), "ok") else bad
    | _, _, _ => bad
  | ["cdel", i, k] =>
    match i.toNat?, ofHex k with
    | some i, some k => if i < s.copies.length then (s.apply (.cdel i k), "ok") else bad
    | _, _ => bad
  | ["cget", i, k] =>
    match i.toNat?, ofHex k with
    | some i, some k =>
      match s.copies[i]? with
      | some h => (s, showGet (h.get k))
      | none => bad
    | _, _ => bad
  | ["citer", i, p, r] =>
    match i.toNat?, ofHex p, parseBool r with
    | some i, some p, some r =>
      match s.copies[i]? with
      | some h => (s, showIter (h.iter p r))
      | none => bad
    | _, _, _ => bad
  | ["readat", v, k] =>
    match v.toNat?, ofHex k with
    | some v, some k => (s, showGet ((s.readOnly v).get k))
    | _, _ => bad
  | ["iterat", v, p, r] =>
    match v.toNat?, ofHex p, parseBool r with
    | some v, some p, some r => (s, showIter ((s.readOnly v).iter p r))
    | _, _, _ => bad
  | ["hold", v] =>
    match v.toNat? with
    | some v => (s.apply (.hold v), "ok " ++ toString s.held.length)
    | none => bad
  | ["hget", i, k] =>
    match i.toNat?, ofHex k with
    | some i, some k =>
      match s.held[i]? with
      | some h => (s, showGet (h.get k))
      | none => bad
    | _, _ => bad
  | ["hiter", i, p, r] =>
    match i.toNat?, ofHex p, parseBool r with
    | some i, some p, some r =>
      match s.held[i]? with
      | some h => (s, showIter (h.iter p r))
      | none => bad
    | _, _, _ => bad
  | ["version"] => (s, "ok " ++ toString s.version)
  | _ => bad

def showBlk (b : BlockRes) : String :=
  "blk " ++ toString b.hHeight ++ " " ++ hexOrDash b.hash ++ " n " ++ toString b.txs.length ++
    String.join (b.txs.map fun t => " " ++ hexOrDash t)

/-- `live` = the store object's own indexer, `ro:<v>` = the indexer of `NewReadOnly(v)` -/
def parseView (w : String) : Option (Option Nat) :=
  if w == "live" then some none
  else if w.startsWith "ro:" then (w.drop 3).toString.toNat?.map some
  else none

/-- the keying of the block cache the driver runs (the code as it stands); `Props/C10.lean` derives the
same value from the generated source facts -/
def mode : CacheKeying := .byHashKey

/-- the process: the store, its indexer partition and the process-wide block cache -/
def step (s : IState) (line : String) : IState × String :=
  let bad := (s, "bad-op")
  match words line with
  | "iblk" :: h :: hash :: txs =>
    match h.toNat?, ofHex hash, txs.mapM ofHex with
    | some h, some hash, some txs => (s.apply mode (.indexBlock h hash txs), "ok")
    | _, _, _ => bad
  | ["iqc", h, bh] =>
    match h.toNat?, ofHex bh with
    | some h, some bh => (s.apply mode (.indexQC h bh), "ok")
    | _, _ => bad
  | ["reset"] => if s.st.main.length == 1 then (s.apply mode .reset, "ok") else bad
  | ["purge"] => (s.apply mode .purgeCache, "ok")
  | ["gbh", vw, h] =>
    match parseView vw, h.toNat? with
    | some v, some h => (s.apply mode (.getBlock v h false), showBlk (getBlockByHeight mode s.cache (s.view v) h).1)
    | _, _ => bad
  | ["gbhh", vw, h] =>
    match parseView vw, h.toNat? with
    | some v, some h => (s.apply mode (.getBlock v h true), showBlk (getBlockHeaderByHeight mode s.cache (s.view v) h).1)
    | _, _ => bad
  | ["gbx", vw, hash] =>
    match parseView vw, ofHex hash with
    | some v, some hash => (s, showBlk ((s.view v).getBlockByHash hash))
    | _, _ => bad
  | ["gqc", vw, h] =>
    match parseView vw, h.toNat? with
    | some v, some h =>
      let r := getQCByHeight mode s.cache (s.view v) h
      (s.apply mode (.getQC v h), "qc " ++ toString r.1.1 ++ " " ++ hexOrDash r.1.2.1 ++ " blk " ++
        toString r.1.2.2.hHeight ++ " " ++ hexOrDash r.1.2.2.hash ++ " " ++ toString r.1.2.2.txs.length)
    | _, _ => bad
  | ["gblocks", vw, pn, pp] =>
    match parseView vw, pn.toNat?, pp.toNat? with
    | some v, some pn, some pp =>
      let r := (getBlocks .none s.cache (s.view v) pn pp).1
      (s.apply mode (.getBlocks v pn pp), "n " ++ toString r.1.length ++ " total " ++ toString r.2 ++
        String.join (r.1.map fun b => " | " ++ showBlk b))
    | _, _, _ => bad
  | ["gtx", vw, hash] =>
    match parseView vw, ofHex hash with
    | some v, some hash => (s, "v " ++ hexOrDash ((s.view v).getTxByHash hash))
    | _, _ => bad
  | ["gtxs", vw, h] =>
    match parseView vw, h.toNat? with
    | some v, some h =>
      let ts := (s.view v).txsByHeight h
      (s, "n " ++ toString ts.length ++ String.join (ts.map fun t => " " ++ hexOrDash t))
    | _, _ => bad
  | ["commit"] =>
    if s.st.main.length == 1 then let s' := s.apply mode (.store .commit); (s', "ok " ++ toString s'.st.version) else bad
  | ["rollback", t] =>
    match t.toNat? with
    | some t =>
      if s.st.main.length == 1 then
        match s.rollback t with
        | some _ => let s' := s.apply mode (.store (.rollback t)); (s', "ok " ++ toString s'.st.version)
        | none => (s, "err")
      else bad
    | none => bad
  | _ => let r := stepSt s.st line; ({ s with st := r.1 }, r.2)

end Driver.C10

def main : IO Unit := Driver.loopStateful ({} : Canopy.Store.IState) Driver.C10.step
