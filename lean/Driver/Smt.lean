import Driver.Common
import Canopy.Model.Smt
import Canopy.Gen.SmtFacts
/-! Shared step function of the C08 / C16 drivers (M-smt). Stateful; one answer per op line.

grain (a) — the SMT alone:
  `new <n>`                              fresh tree of key length n
  `commit seq|par <tok>…`                one batch; tok = `s:<userkey hex>:<value hex>` | `d:<userkey hex>`
      → `root <hex> nodes <k> l0 same|differs` | `err:reserved` | `panic`
grain (b) — the store:
  `store`                                fresh store (n = 160, version 0)
  `set <userkey> <value>` / `del <userkey>` → `ok`
  `tbegin` / `tflush` / `tdiscard`       nested transaction (`Store.NewTxn`, `Flush`, `Discard`)
  `root`                                 speculative root (cached until reset/commit) → `root <hex> l0 same`
  `commit`                               → `root <hex> l0 same version <v>`
  `reset`                                drop pending writes and the cached tree → `ok`
  `reopen`                               new Store object over the same database → `version <v>`
  `rollback <v>`                         `Store.Rollback(v)`: back to the state and tree committed for height v → `version <v>`
  `copy` / `cset k v` / `cdel k` / `croot` / `cdiscard`   `Store.Copy()`: a second store with the same content; its
                                         writes and its `Root()` (what the clone inherits comes from the generated fact)

The model keeps BOTH the L1 tree (updated by the algorithm) and its own L0 key/value list; `l0` reports
whether the L1 tree is the canonical trie of the list (`canon`). -/
namespace Driver.Smt
open Canopy Canopy.Smt Driver

abbrev KVs := List (Key × Bytes)

def kvSet (m : KVs) (k : Key) (v : Bytes) : KVs :=
  if m.any (·.1 == k) then m.map fun kv => if kv.1 == k then (k, v) else kv else m ++ [(k, v)]

def kvDel (m : KVs) (k : Key) : KVs := m.filter (·.1 != k)

def kvApply (m : KVs) : Op → KVs
  | .set k v => kvSet m k v
  | .del k => kvDel m k

abbrev Pending := List (Bytes × Option Bytes)   -- user key -> last write (none = delete)

structure St where
  n : Nat := 0
  tree : Trie := empty 0
  kvs : KVs := []
  -- store level
  isStore : Bool := false
  pending : Pending := []                 -- writes of the block in progress
  txn : Option Pending := none            -- writes of an open nested transaction
  cached : Option Trie := none            -- the tree `Root()` built and keeps until reset/commit
  version : Nat := 0
  clone : Option (Pending × Option Trie) := none   -- `Store.Copy()`: the clone's pending writes and cached tree
  snaps : List (Nat × Trie × KVs) := []   -- what was committed for every height (for `rollback`)
  lastRoot : Bytes := []                  -- the root recorded for the current height (nothing on a fresh database)

def initKvs (n : Nat) : KVs := [(minKey n, minVal), (maxKey n, maxVal)]

def parseTok (n : Nat) (tok : String) : Option Op :=
  match tok.splitOn ":" with
  | ["s", k, v] => do
    let kb ← ofHex k
    let vb ← ofHex v
    pure (Op.set (keyOfUser n kb) (sha256 vb))
  | ["d", k] => do
    let kb ← ofHex k
    pure (Op.del (keyOfUser n kb))
  | _ => none

def l0Tag (t : Trie) (kvs : KVs) : String :=
  if canon kvs == some t then "same" else "differs"

def showRoot (t : Trie) (kvs : KVs) : String :=
  "root " ++ hexOrDash t.root ++ " nodes " ++ toString t.size ++ " l0 " ++ l0Tag t kvs

def pendSet (p : Pending) (k : Bytes) (v : Option Bytes) : Pending :=
  if p.any (·.1 == k) then p.map fun e => if e.1 == k then (k, v) else e else p ++ [(k, v)]

def pendingOps (n : Nat) (p : Pending) : List Op :=
  p.map fun (k, v) => match v with
    | some vb => Op.set (keyOfUser n k) (sha256 vb)
    | none => Op.del (keyOfUser n k)

/-- `Store.Root()`: build the tree for the pending block once (`CommitParallel` of the txn ops), keep it -/
def storeRoot (s : St) : St × Option Trie :=
  match s.cached with
  | some c => (s, some c)
  | none =>
    match commitAuto s.n s.tree (pendingOps s.n s.pending) with
    | .ok t => ({ s with cached := some t }, some t)
    | _ => (s, none)

/-- the model's own L0 view of the state store: committed contents plus ALL pending writes (also those made
after a cached `Root()`, which the cached tree does not cover) -/
def stateNow (s : St) : KVs := (pendingOps s.n s.pending).foldl kvApply s.kvs

def write (s : St) (k : Bytes) (v : Option Bytes) : St :=
  match s.txn with
  | some p => { s with txn := some (pendSet p k v) }
  | none => { s with pending := pendSet s.pending k v }

def step (s : St) (line : String) : St × String :=
  match words line with
  | ["new", ns] =>
    match ns.toNat? with
    | some n =>
      let s' : St := { n := n, tree := empty n, kvs := initKvs n }
      (s', showRoot s'.tree s'.kvs)
    | none => (s, "bad-op")
  | "commit" :: mode :: toks =>
    if s.isStore then (s, "bad-op") else
    match toks.mapM (parseTok s.n) with
    | none => (s, "bad-op")
    | some ops =>
      -- sequential `Commit` on the root storage key is not modelled (it overwrites the root node itself)
      if mode == "seq" && ops.any (fun op => op.key == rootKey s.n) then (s, "bad-op") else
      let out := if mode == "seq" then some (commit s.tree ops)
                 else if mode == "par" then
                   (if ops.length < 16 && ops.any (fun op => op.key == rootKey s.n) then none else some (commitAuto s.n s.tree ops))
                 else none
      match out with
      | none => (s, "bad-op")
      | some (.ok t) =>
        let kvs := (sortOps ops).foldl kvApply s.kvs
        ({ s with tree := t, kvs := kvs }, showRoot t kvs)
      | some .reserved => (s, "err:reserved")
      | some .crash => (s, "panic")
  | ["store"] =>
    let s' : St := { n := 160, tree := empty 160, kvs := initKvs 160, isStore := true }
    (s', "ok")
  | ["set", k, v] =>
    if !s.isStore then (s, "bad-op") else
    match ofHex k, ofHex v with
    | some kb, some vb => (write s kb (some vb), "ok")
    | _, _ => (s, "bad-op")
  | ["del", k] =>
    if !s.isStore then (s, "bad-op") else
    match ofHex k with
    | some kb => (write s kb none, "ok")
    | none => (s, "bad-op")
  | ["tbegin"] =>
    if !s.isStore || s.txn.isSome then (s, "bad-op") else ({ s with txn := some [] }, "ok")
  | ["tdiscard"] =>
    if !s.isStore || s.txn.isNone then (s, "bad-op") else ({ s with txn := none }, "ok")
  | ["tflush"] =>
    match s.isStore, s.txn with
    | true, some p => ({ s with txn := none, pending := p.foldl (fun acc e => pendSet acc e.1 e.2) s.pending }, "ok")
    | _, _ => (s, "bad-op")
  | ["copy"] =>
    if !s.isStore || s.txn.isSome then (s, "bad-op") else
    ({ s with clone := some (s.pending, copyCached Gen.SmtFacts.copyCarriesCommitment s.cached) }, "ok")
  | ["cset", k, v] =>
    match s.clone, ofHex k, ofHex v with
    | some (p, c), some kb, some vb => ({ s with clone := some (pendSet p kb (some vb), c) }, "ok")
    | _, _, _ => (s, "bad-op")
  | ["cdel", k] =>
    match s.clone, ofHex k with
    | some (p, c), some kb => ({ s with clone := some (pendSet p kb none, c) }, "ok")
    | _, _ => (s, "bad-op")
  | ["croot"] =>
    match s.clone with
    | some (p, c) =>
      match storeRootTree s.n c s.tree (pendingOps s.n p) with
      | .ok t =>
        let kvs := (pendingOps s.n p).foldl kvApply s.kvs
        ({ s with clone := some (p, some t) }, "root " ++ hexOrDash t.root ++ " l0 " ++ l0Tag t kvs)
      | _ => (s, "err")
    | none => (s, "bad-op")
  | ["cdiscard"] =>
    if s.clone.isNone then (s, "bad-op") else ({ s with clone := none }, "ok")
  | ["root"] =>
    if !s.isStore then (s, "bad-op") else
    match storeRoot s with
    | (s', some t) => (s', "root " ++ hexOrDash t.root ++ " l0 " ++ l0Tag t (stateNow s'))
    | (s', none) => (s', "err")
  | ["commit"] =>
    if !s.isStore then (s, "bad-op") else
    match storeRoot s with
    | (s', some t) =>
      let kvs := stateNow s'
      -- the root `Commit()` records and returns (`storeCommitRoot`, on the generated fact about `Commit`)
      match storeCommitRoot Gen.SmtFacts.commitTakesRootFromRoot s.lastRoot s.cached (pendingOps s.n s.pending) (.ok t) with
      | .ok root =>
        let v := s'.version + 1
        ({ s' with tree := t, kvs := kvs, cached := none, pending := [], version := v, lastRoot := root,
                   snaps := (v, t, kvs) :: s'.snaps },
          "root " ++ hexOrDash root ++ " l0 " ++ l0Tag t kvs ++ " version " ++ toString v)
      | _ => (s', "err")
    | (s', none) => (s', "err")
  | ["rollback", vs] =>
    if !s.isStore then (s, "bad-op") else
    match vs.toNat? with
    | none => (s, "bad-op")
    | some v =>
      match s.snaps.find? (·.1 == v) with
      | none => (s, "bad-op")
      | some (_, t, kvs) =>
        let t := rollbackTree Gen.SmtFacts.rollbackPrunedPrefixes Gen.SmtFacts.rootWritesPrefix t s.tree
        ({ s with tree := t, kvs := kvs, cached := none, pending := [], txn := none, version := v, lastRoot := t.root,
                  snaps := s.snaps.filter (·.1 ≤ v) }, "version " ++ toString v)
  | ["reset"] =>
    if !s.isStore then (s, "bad-op") else
    ({ s with cached := none, pending := [], txn := none }, "ok")
  | ["flush"] =>
    -- `db.Flush()`: the memtable goes to an sstable; nothing the model can see
    if !s.isStore then (s, "bad-op") else (s, "ok")
  | ["reopen"] =>
    if !s.isStore then (s, "bad-op") else
    ({ s with cached := none, pending := [], txn := none }, "version " ++ toString s.version)
  | _ => (s, "bad-op")

end Driver.Smt

