import Driver.Common
import Canopy.Model.Ledger
/-! Driver for C04 / C12 (M-ledger): stateful; one case = one chain. The op lines are produced by
`harness/ledger` while it drives the real `fsm.StateMachine`; this driver replays them on the model and
prints the same result lines, including the full state dump after genesis and after every block. -/
namespace Driver.Ledger
open Canopy.Ledger Driver

/-! ### parsing -/

def hexVal (c : Char) : Option Nat :=
  if '0' ≤ c && c ≤ '9' then some (c.toNat - '0'.toNat)
  else if 'a' ≤ c && c ≤ 'f' then some (c.toNat - 'a'.toNat + 10)
  else none

def parseHex (s : String) : Option Nat :=
  if s.isEmpty then none else s.toList.foldlM (fun acc c => (hexVal c).map (acc * 16 + ·)) 0

def parseAddr (s : String) : Option Addr := if s.length = 40 then parseHex s else none

def hexDigit (n : Nat) : Char := if n < 10 then Char.ofNat (48 + n) else Char.ofNat (87 + n)

def showAddr (a : Addr) : String :=
  String.ofList ((List.range 40).map fun i => hexDigit (a / 16 ^ (39 - i) % 16))

def kv (ws : List String) (k : String) : Option String :=
  ws.findSome? fun w => if w.startsWith (k ++ "=") then some (w.drop (k.length + 1)).toString else none

def kvNat (ws : List String) (k : String) : Option Nat := (kv ws k).bind String.toNat?
def kvAddr (ws : List String) (k : String) : Option Addr := (kv ws k).bind parseAddr
def kvBool (ws : List String) (k : String) : Option Bool := (kv ws k).bind fun s => if s = "1" then some true else if s = "0" then some false else none

def splitList (s : String) (sep : String) : List String := if s = "-" || s.isEmpty then [] else s.splitOn sep

def parseNats (s : String) (sep : String) : Option (List Nat) := (splitList s sep).mapM String.toNat?
def parseAddrs (s : String) : Option (List Addr) := (splitList s ",").mapM parseAddr

def kvList {α} (ws : List String) (k : String) (f : List String → Option α) : Option (List α) :=
  (kv ws k).bind fun s => (splitList s ",").mapM fun e => f (e.splitOn ":")

/-! ### printing -/

def join (sep : String) (xs : List String) : String := if xs.isEmpty then "-" else sep.intercalate xs

def showNMap (m : List (Nat × Nat)) : String := join "," (m.map fun (k, v) => s!"{k}:{v}")

def showVal (a : Addr) (v : Validator) : String :=
  s!"{showAddr a}:{v.stake}:{join "/" (v.committees.map toString)}:{if v.delegate then 1 else 0}:{if v.compound then 1 else 0}:{showAddr v.output}:{v.unstakingHeight}:{v.maxPausedHeight}"

def dump (L : Ledger) : String :=
  s!"h={L.height} sup={L.supply.total}/{L.supply.staked}/{L.supply.delegatedOnly} cs={showNMap L.supply.committee} cd={showNMap L.supply.delegated}" ++
  s!" acc={join "," (L.accounts.map fun (a, x) => match AMap.find? L.vesting a with
      | some t => s!"{showAddr a}:{x}:{t.amount}/{t.start}/{t.cliff}/{t.stop}"
      | none => s!"{showAddr a}:{x}")} pool={showNMap L.pools}" ++
  s!" val={join "," (L.validators.map fun (a, v) => showVal a v)}" ++
  s!" unst={join "," (L.unstaking.map fun ((h, a), _) => s!"{h}:{showAddr a}")}" ++
  s!" paus={join "," (L.paused.map fun ((h, a), _) => s!"{h}:{showAddr a}")}" ++
  s!" ns={join "," (L.nonSigners.map fun (a, n) => s!"{showAddr a}:{n.counter}:{join ";" (n.chains.map fun (c, x) => s!"{c}/{x}")}")}" ++
  s!" ck={join "," (L.committeeKeys.map fun ((c, s, a), _) => s!"{c}:{s}:{showAddr a}")}" ++
  s!" dk={join "," (L.delegateKeys.map fun ((c, s, a), _) => s!"{c}:{s}:{showAddr a}")}" ++
  s!" cdat={join "," (L.committeesData.map fun d => s!"{d.chainId}:{d.lastRootHeight}:{d.lastChainHeight}:{d.samples}:{join ";" (d.percents.map fun (a, p) => s!"{showAddr a}/{p}")}")}" ++
  s!" ret={join "," (L.retired.map toString)}"

def showResult (r : M Ledger) (withDump : Bool) : String :=
  match r with
  | .ok L => if withDump then "ok " ++ dump L else "ok"
  | .error e => "err:" ++ e.code

/-! ### operations -/

def parseGenesis (ws : List String) : Option (M Ledger) := do
  let cfg : Config := {
    chainId := ← kvNat ws "chain", blocksPerHalvening := ← kvNat ws "bph", initialTokensPerBlock := ← kvNat ws "itpb",
    faucet := ← (match kv ws "faucet" with | some "-" => some none | some s => (parseAddr s).map some | none => none) }
  let pv ← (kv ws "pv").bind fun s => parseNats s "/"
  let fees ← (kv ws "fees").bind fun s => parseNats s "/"
  let (pvV, pvH) ← (match pv with | [v, h] => some (v, h) | _ => none)
  let p : Params ← (match fees with
    | [f1, f2, f3, f4, f5, f6, f7, f8, f9] =>
      some ({ sendFee := f1, stakeFee := f2, editStakeFee := f3, unstakeFee := f4, pauseFee := f5, unpauseFee := f6,
              changeParameterFee := f7, daoTransferFee := f8, subsidyFee := f9 } : Params)
    | _ => none)
  let p : Params := { p with
    pvVersion := pvV, pvHeight := pvH, rootChainId := ← kvNat ws "root",
    unstakingBlocks := ← kvNat ws "ub", delegateUnstakingBlocks := ← kvNat ws "dub", maxPauseBlocks := ← kvNat ws "mpb",
    nonSignWindow := ← kvNat ws "nsw", maxNonSign := ← kvNat ws "mns", nonSignSlashPercentage := ← kvNat ws "nss",
    doubleSignSlashPercentage := ← kvNat ws "dss", maxSlashPerCommittee := ← kvNat ws "mspc",
    minStakeValidators := ← kvNat ws "msv", minStakeDelegates := ← kvNat ws "msd", maxCommittees := ← kvNat ws "mc",
    earlyWithdrawalPenalty := ← kvNat ws "ewp", stakePercentForSubsidized := ← kvNat ws "spsc",
    daoRewardPercentage := ← kvNat ws "dao" }
  let accounts ← kvList ws "A" fun | [a, x] => do pure (← parseAddr a, ← x.toNat?) | _ => none
  let pools ← kvList ws "P" fun | [i, x] => do pure (← i.toNat?, ← x.toNat?) | _ => none
  let vals ← kvList ws "V" fun
    | [a, st, cs, d, c, o, u, m] => do
      let addr ← parseAddr a
      let stake ← st.toNat?
      let committees ← parseNats cs "/"
      let output ← parseAddr o
      let uh ← u.toNat?
      let mh ← m.toNat?
      let v : Validator := ⟨stake, committees, d == "1", c == "1", output, uh, mh⟩
      pure (⟨addr, v⟩ : GenesisValidator)
    | _ => none
  let retired ← (kv ws "R").bind fun s => parseNats s ","
  let books ← kvList ws "O" fun | [c, xs] => do pure (← c.toNat?, ← parseNats xs "/") | _ => none
  pure (genesis cfg p accounts pools vals retired books)

def parseMsg (kind : String) (ws : List String) : Option Msg :=
  match kind with
  | "send" => do
    -- one message kind in the code; the model has a constructor of its own for "not all three vesting heights are 0"
    match kvNat ws "vs", kvNat ws "vc", kvNat ws "ve" with
    | some vs, some vc, some ve =>
      if vs = 0 && vc = 0 && ve = 0 then pure (.send (← kvAddr ws "from") (← kvAddr ws "to") (← kvNat ws "amount"))
      else pure (.sendVesting (← kvAddr ws "from") (← kvAddr ws "to") (← kvNat ws "amount") vs vc ve)
    | _, _, _ => pure (.send (← kvAddr ws "from") (← kvAddr ws "to") (← kvNat ws "amount"))
  | "stake" => do
    pure (.stake (← kvAddr ws "addr") (← kvNat ws "amount") (← (kv ws "cs").bind (parseNats · "/")) (← kvBool ws "deleg") (← kvBool ws "comp") (← kvAddr ws "out"))
  | "editStake" => do
    pure (.editStake (← kvAddr ws "addr") (← kvNat ws "amount") (← (kv ws "cs").bind (parseNats · "/")) (← kvBool ws "comp") (← kvAddr ws "out"))
  | "unstake" => do pure (.unstake (← kvAddr ws "addr"))
  | "pause" => do pure (.pause (← kvAddr ws "addr"))
  | "unpause" => do pure (.unpause (← kvAddr ws "addr"))
  | "daoTransfer" => do pure (.daoTransfer (← kvAddr ws "addr") (← kvNat ws "amount") (← kvBool ws "mint") (← kvNat ws "start") (← kvNat ws "end"))
  | "subsidy" => do pure (.subsidy (← kvAddr ws "addr") (← kvNat ws "chain") (← kvNat ws "amount"))
  | "changeParameter" => do
    pure (.changeParameter (← kvAddr ws "signer") (← kv ws "space") (← kv ws "key") (← kvNat ws "value") (← kvNat ws "start") (← kvNat ws "end"))
  | _ => none

def parseMembers (ws : List String) : Option (List (Addr × Nat × Bool)) :=
  kvList ws "mem" fun | [a, p, s] => do pure (← parseAddr a, ← p.toNat?, s == "1") | _ => none
def parseDS (ws : List String) : Option (List (Addr × List Nat)) :=
  kvList ws "ds" fun | [a, hs] => do pure (← parseAddr a, ← parseNats hs "/") | _ => none
def parsePay (ws : List String) : Option (List (Addr × Nat × Nat)) :=
  kvList ws "pay" fun | [a, p, c] => do pure (← parseAddr a, ← p.toNat?, ← c.toNat?) | _ => none

/-- the state is `none` before a successful genesis -/
def step (mc : Bool) (st : Option Ledger) (line : String) : Option Ledger × String :=
  let ws := words line
  let run (r : M Ledger) (withDump : Bool) : Option Ledger × String :=
    match r with
    | .ok L => (some L, showResult r withDump)
    | .error _ => (st, showResult r withDump)
  match ws, st with
  | "oracle-only" :: _, _ => (st, "unsupported")   -- run on the real code under the oracles only (DEX batches: C20)
  | "genesis" :: rest, _ =>
    match parseGenesis rest with
    | some r => (match r with | .ok L => (some L, showResult r true) | .error _ => (none, showResult r true))
    | none => (st, "bad-op")
  | "tx" :: kind :: rest, some L =>
    match parseMsg kind rest, kvAddr rest "sender", kvNat rest "fee" with
    | some msg, some sender, some fee => run (applyTx L sender fee msg) false
    | _, _, _ => (st, "bad-op")
  | ["mint"], some L => run (beginBlockMint L) false
  | "slash" :: rest, some L =>
    match kvNat rest "chain", kvNat rest "pct", (kv rest "addrs").bind parseAddrs with
    | some chain, some pct, some addrs => run (slashValidatorsWith mc L chain pct addrs) false
    | _, _, _ => (st, "bad-op")
  | "cert" :: rest, some L =>
    match kvNat rest "h", kvNat rest "rh", parseMembers rest, parseDS rest, parsePay rest with
    | some h, some rh, some mem, some ds, some pay => run (handleCertificateResults L h rh mem ds pay) false
    | _, _, _, _, _ => (st, "bad-op")
  | "retire" :: rest, some L =>
    match kvNat rest "chain" with
    | some chain => (some (retireCommittee L chain), "ok")
    | none => (st, "bad-op")
  | ["end"], some L => run (endBlock L) true
  | ["dump"], some L => (st, "ok " ++ dump L)
  | _, _ => (st, "bad-op")

end Driver.Ledger

