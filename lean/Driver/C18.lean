import Driver.Common
import Canopy.Model.Bytes
import Canopy.Model.Mux
/-! Driver for C18: the sender/scheduler/receiver model of `MultiConn` with the generated limits. -/
namespace Driver.C18
open Canopy Canopy.Mux Driver

def L : Limits := Limits.code

/-- test pattern shared with the Go driver -/
def pattern (seed len : Nat) : Bytes :=
  (List.range len).map fun i => UInt8.ofNat ((seed + i * 13 + i / 255) % 256)

/-- FNV-1a 64 -/
def fnv (b : Bytes) : UInt64 :=
  b.foldl (fun h x => (h ^^^ x.toUInt64) * 1099511628211) 14695981039346656037

def fnvMix (h : UInt64) (x : UInt64) : UInt64 := (h ^^^ x) * 1099511628211

def showMsg (b : Bytes) : String := toString b.length ++ ":" ++ toString (fnv b).toNat

def pktHash (h : UInt64) (p : Packet) : UInt64 :=
  fnvMix (fnvMix (fnvMix (fnvMix h p.topic.toUInt64) (if p.eof then 1 else 0)) p.bytes.length.toUInt64) (fnv p.bytes)

structure St where
  c : Conn
  /-- how many log entries of each topic have already been reported -/
  seen : List (Nat × Nat)

def St.init : St := ⟨Conn.init, []⟩

def seenGet (s : List (Nat × Nat)) (t : Nat) : Nat := (s.lookup t).getD 0
def seenSet (s : List (Nat × Nat)) (t n : Nat) : List (Nat × Nat) := (t, n) :: s.filter (·.1 != t)

def nat? (s : String) : Option Nat := s.toNat?

def closeName : Option CloseReason → String
  | none => "open"
  | some .badStream => "close:bad-stream"
  | some .maxMessageSize => "close:max-size"
  | some .malformed => "close:malformed"

/-- feed one packet straight to the receiver (hand-driven sender) and report what it did -/
def recvPkt (st : St) (p : Packet) : St × String :=
  let before := st.c.r
  let r' := before.handle L p
  let st' := { st with c := { st.c with r := r' } }
  if before.closed.isSome then (st', "ignored-closed")
  else if r'.closed.isSome then (st', closeName r'.closed)
  else
    let lb := (before.log.get p.topic).length
    let la := r'.log.get p.topic
    if la.length > lb then (st', "deliver " ++ toString p.topic ++ " " ++ showMsg (la.getLast?.getD []))
    else (st', "ok")

def parseLens : List String → Option (List (Nat × Bool))
  | [] => some []
  | n :: e :: rest => do
    let n ← nat? n
    let e ← nat? e
    let r ← parseLens rest
    pure ((n, e != 0) :: r)
  | _ => none

def step (st : St) (line : String) : St × String :=
  match words line with
  | ["const", name] =>
    (st, match name with
      | "maxDataChunkSize" => toString L.chunk
      | "maxMessageSize" => toString L.maxMsg
      | "maxInboxQueueSize" => toString L.inboxCap
      | "maxPacketSize" => toString Gen.Mux.maxPacketSize
      | "queueSendTimeoutMs" => toString Gen.Mux.queueSendTimeoutMs
      | "maxStreamSendQueueSize" => toString Gen.Mux.maxStreamSendQueueSize
      | _ => "bad-op")
  | ["send", t, seed, len] =>
    match nat? t, nat? seed, nat? len with
    | some t, some s, some l =>
      let m := pattern s l
      if st.c.s.dead then (st, "refused") -- the connection was stopped on this side: Send returns false
      else ({ st with c := st.c.step L (.send t m) }, "ok " ++ toString (packetsOf L t m).length)
    | _, _, _ => (st, "bad-op")
  | ["dial", mode] =>
    -- node-level scenario `dial-attribution`: A dials B (authenticated identity B = 2) with the right key,
    -- a wrong key (9) or no key, strict or not; what A records and tags B's messages with
    let r : Option (Option Nat) := match mode with
      | "right-strict" => some (recordedIdentity 2 (some 2) true true)
      | "right-loose" => some (recordedIdentity 2 (some 2) true false)
      | "wrong-strict" => some (recordedIdentity 2 (some 9) true true)
      | "wrong-loose" => some (recordedIdentity 2 (some 9) true false)
      | "nokey-strict" => some (recordedIdentity 2 none true true)
      | "nokey-loose" => some (recordedIdentity 2 none true false)
      | _ => none
    let name (k : Nat) : String := if k = 2 then "B" else if k = 9 then "W" else "?"
    (st, match r with
      | none => "bad-op"
      | some none => "refused"
      | some (some k) => "ok sender=" ++ name k ++ " registered=" ++ name k)
  | ["send-tagged", t, kind, idx] =>
    -- scenario `concurrent-small-and-large-same-topic`: kind 0 = one-packet message #idx of sender F,
    -- kind 1 = three-packet message #idx of sender L (payloads as in harness/c18/interleave.go)
    match nat? t, nat? kind, nat? idx with
    | some t, some kd, some i =>
      let m : Bytes :=
        if kd = 0 then [70, UInt8.ofNat (i / 256), UInt8.ofNat i] ++ (pattern (i % 251) (3 + (i * 7) % 90)).drop 3
        else [76, UInt8.ofNat i] ++ (pattern (100 + i) (2 * L.chunk + 1 + i * 17)).drop 2
      if st.c.s.dead then (st, "refused")
      else ({ st with c := st.c.step L (.send t m) }, "ok " ++ toString (packetsOf L t m).length)
    | _, _, _ => (st, "bad-op")
  | ["send-foreign", _t, _len] =>
    -- the relay saw a message complete on the wire that no sender handed to the connection: the model
    -- (all packets of a message enqueued contiguously) has no history that produces it
    (st, "impossible")
  | ["wire-n", t, n] =>
    match nat? t, nat? n with
    | some t, some n =>
      let before := st.c.s.wire.length
      let c' := (List.range n).foldl (fun c _ => c.step L (.pick t)) st.c
      let newPkts := c'.s.wire.drop before
      if newPkts.length != n then ({ st with c := c' }, "wire-impossible " ++ toString newPkts.length)
      else ({ st with c := c' }, "wire " ++ toString newPkts.length ++ " " ++ toString (newPkts.foldl pktHash 14695981039346656037).toNat)
    | _, _ => (st, "bad-op")
  | ["deliver-all-draining", t] =>
    -- the network hands over every wire packet while the application keeps emptying topic t's inbox
    match nat? t with
    | some t =>
      let n := st.c.s.wire.length - st.c.rcvd
      let c' := (List.range n).foldl (fun c _ => (c.step L .deliver).step L (.drain t)) st.c
      ({ st with c := c' }, closeName c'.r.closed)
    | none => (st, "bad-op")
  | ["inbox-hash", t] =>
    match nat? t with
    | some t =>
      let log := st.c.r.log.get t
      let new := log.drop (seenGet st.seen t)
      let h := new.foldl (fun h m => fnvMix (fnvMix h m.length.toUInt64) (fnv m)) 14695981039346656037
      ({ c := st.c.step L (.drain t), seen := seenSet st.seen t log.length }, toString new.length ++ " " ++ toString h.toNat)
    | none => (st, "bad-op")
  | ["send-partial", t, seed, len, k] =>
    match nat? t, nat? seed, nat? len, nat? k with
    | some t, some s, some l, some k => ({ st with c := st.c.step L (.sendPartial t (pattern s l) k) }, "fail " ++ toString k)
    | _, _, _, _ => (st, "bad-op")
  | "wire" :: ts =>
    -- the observed schedule of the send loop: one topic id per packet written
    match ts.mapM nat? with
    | some ts =>
      let before := st.c.s.wire.length
      let c' := ts.foldl (fun c t => c.step L (.pick t)) st.c
      let newPkts := c'.s.wire.drop before
      if newPkts.length != ts.length then ({ st with c := c' }, "wire-impossible " ++ toString newPkts.length)
      else ({ st with c := c' }, "wire " ++ toString newPkts.length ++ " " ++ toString (newPkts.foldl pktHash 14695981039346656037).toNat)
    | none => (st, "bad-op")
  | ["deliver-all"] =>
    let n := st.c.s.wire.length - st.c.rcvd
    let c' := (List.range n).foldl (fun c _ => c.step L .deliver) st.c
    ({ st with c := c' }, closeName c'.r.closed)
  | ["inbox", t] =>
    -- what the application finds in topic t's inbox since the last look (and takes)
    match nat? t with
    | some t =>
      let log := st.c.r.log.get t
      let new := log.drop (seenGet st.seen t)
      ({ c := st.c.step L (.drain t), seen := seenSet st.seen t log.length },
        toString new.length ++ String.join (new.map fun m => " " ++ showMsg m))
    | none => (st, "bad-op")
  | ["split-lens", n] =>
    -- chunk lengths of `split` at the real constants for a message of n bytes (never materialised)
    match nat? n with
    | some n =>
      let ls := splitLens n L.chunk
      (st, toString ls.length ++ " sum=" ++ toString ls.sum ++ " first=" ++ toString (ls.head?.getD 0) ++ " last=" ++ toString (ls.getLast?.getD 0)
        ++ " max=" ++ toString (ls.foldl max 0))
    | none => (st, "bad-op")
  | ["fill", t, n] =>
    -- scenario slow-consumer-inbox-overflow: n one-packet messages straight to the receiver, nobody reading
    match nat? t, nat? n with
    | some t, some n =>
      let r' := (List.range n).foldl (fun r i => r.handle L ⟨t, true, pattern (i % 251) (1 + i % 7)⟩) st.c.r
      ({ st with c := { st.c with r := r' } }, "inbox-len " ++ toString (r'.inbox.get t).length)
    | _, _ => (st, "bad-op")
  | ["pkt", t, eof, seed, len] =>
    match nat? t, nat? eof, nat? seed, nat? len with
    | some t, some e, some s, some l => recvPkt st ⟨t, e != 0, pattern s l⟩
    | _, _, _, _ => (st, "bad-op")
  | "lens" :: t :: rest =>
    -- length-only run of ONE stream from an empty assembler: huge traffic that cannot be materialised
    match nat? t, parseLens rest with
    | some t, some ls =>
      let (d, closed) := lenSim L (decide (t < L.inboxTopics)) 0 ls
      (st, (if closed then "close:max-size" else "open") ++ " " ++ toString d.length ++ String.join (d.map fun n => " " ++ toString n))
    | _, _ => (st, "bad-op")
  | ["malformed", _kind] =>
    -- undecodable envelope / unknown payload type / oversized length prefix: the receive loop errors before any stream is touched
    if st.c.r.closed.isSome then (st, "ignored-closed")
    else ({ st with c := { st.c with r := st.c.r.malformed } }, "close:malformed")
  | _ => (st, "bad-op")

end Driver.C18

def main : IO Unit := Driver.loopStateful Driver.C18.St.init Driver.C18.step
