import Driver.ExecStep
import Canopy.Model.Atomic
import Canopy.Model.ExecFacts
/-! Driver for C07.

* `apply allow=<0|1> max=<n> | <k>:<bal> ... | <tx> ; <tx> ...` runs the MECHANISM model
  `Canopy.Atomic.run` (store pointer, read-through caches, hand-written restoration on failure as the
  generated source facts say, oversize remainder) with the real send handler — fee deduction (guarded),
  then transfer (guarded) — and prints which transactions were included / failed / left over and the
  balances of the tracked accounts afterwards.
  `s f t amount fee size` = send; `x f fee size` = any kind that deducts its fee and then fails;
  `p size` = any kind the pre-check rejects.
* the execution-path lines of `Driver/ExecStep.lean`, with every error printed as `rejected`;
  `<node> observe` prints height and working state of the model node; `<node> badcert <blk>` is a
  certificate-level rejection (no effect). -/
namespace Driver.C07
open Canopy.Atomic Driver

def poolKey : Key := 1000000

def bal (v : View) (k : Key) : Nat := (v k).getD 0

def deductFee (f fee : Nat) : Handler :=
  [.guard (fun v => fee ≤ bal v f), .put f (fun v => some (bal v f - fee)),
   .put poolKey (fun v => some (bal v poolKey + fee))]

def mkTx (id : Nat) : List String → Option Tx
  | ["s", f, t, amt, fee, size] => do
    let f ← f.toNat?; let t ← t.toNat?; let amt ← amt.toNat?; let fee ← fee.toNat?; let size ← size.toNat?
    some ⟨id, fun _ => true, [], deductFee f fee ++
      [.guard (fun v => amt ≤ bal v f), .put f (fun v => some (bal v f - amt)), .put t (fun v => some (bal v t + amt))], size⟩
  | ["x", f, fee, size] => do
    let f ← f.toNat?; let fee ← fee.toNat?; let size ← size.toNat?
    some ⟨id, fun _ => true, [], deductFee f fee ++ [.guard (fun _ => false)], size⟩
  | ["p", size] => do
    let size ← size.toNat?
    some ⟨id, fun _ => false, [], [], size⟩
  | _ => none

def splitOn (ws : List String) (sep : String) : List (List String) :=
  let (cur, acc) := ws.foldl (fun (p : List String × List (List String)) w =>
    if w == sep then ([], p.2 ++ [p.1]) else (p.1 ++ [w], p.2)) ([], [])
  acc ++ [cur]

def ids (l : List Tx) : String := ",".intercalate (l.map fun t => toString t.id)

def apply (ws : List String) : String :=
  match splitOn ws "|" with
  | [hd, accts, txs] =>
    match hd with
    | [allow, max] =>
      let allowB := allow == "allow=1"
      match (max.drop 4).toString.toNat? with
      | none => "bad-op"
      | some maxN =>
        let pairs := accts.filterMap fun a => match a.splitOn ":" with
          | [k, b] => match k.toNat?, b.toNat? with
            | some k, some b => some (k, b)
            | _, _ => none
          | _ => none
        let store : View := fun k => (pairs.lookup k).map id
        let txl := (splitOn txs ";").filter (· ≠ [])
        let rec build (i : Nat) : List (List String) → Option (List Tx)
          | [] => some []
          | t :: r => do let x ← mkTx i t; let xs ← build (i + 1) r; some (x :: xs)
        match build 0 txl with
        | none => "bad-op"
        | some txs =>
          match run cfgOfFacts maxN allowB ⟨store, noCache, [], []⟩ txs with
          | none => "rejected"
          | some L =>
            "inc=" ++ ids L.included ++ " fail=" ++ ids L.failed ++ " over=" ++ ids L.oversized ++ " | " ++
              " ".intercalate (pairs.map fun (k, _) => toString k ++ "=" ++ toString (bal L.F.get k))
    | _ => "bad-op"
  | _ => "bad-op"

def canonErr (r : String) : String := if r.startsWith "err:" then "rejected" else r

def step (s : Driver.ExecStep.St) (line : String) : Driver.ExecStep.St × String :=
  match words line with
  | "apply" :: rest => (s, apply rest)
  | [name, "observe"] =>
    match s.get name with
    | some n => (s, "height=" ++ toString n.height ++ " state=" ++ n.working)
    | none => (s, "bad-op")
  | [_name, "badcert", _blk] => (s, "rejected")
  | _ => let (s', r) := Driver.ExecStep.step s line; (s', canonErr r)

end Driver.C07

def main : IO Unit := Driver.loopStateful ({} : Driver.ExecStep.St) Driver.C07.step
