import Driver.Common
import Canopy.Model.Crash
/-! Driver for C09/M-crash: the database as a list of applied batches; `blk` commits one block (one
batch), `rollback t` is `Store.Rollback(t)` (one batch, or none), `crash j` reopens at the prefix of `j` batches; the observations of a reopened store. -/
namespace Driver.C09
open Canopy Canopy.Store Canopy.Crash Driver

def showScan (kvs : List (Bytes × Bytes)) : String :=
  "n " ++ toString kvs.length ++ String.join (kvs.map fun kv => " " ++ hexOrDash kv.1 ++ "=" ++ hexOrDash kv.2)

def showOpt : Option Bytes → String
  | none => "v -"
  | some v => "v " ++ hexOrDash v

/-- `set:<k>=<v>`, `del:<k>`, `idx:<k>=<v>`, `idxdel:<k>`, `root=<r>` -/
def parseBlk (ws : List String) : Option BlockIn :=
  ws.foldlM (fun (b : BlockIn) w =>
    if w.startsWith "set:" then
      match ((w.drop 4).toString.splitOn "=") with
      | [k, v] => match ofHex k, ofHex v with
        | some k, some v => some { b with ops := smSet b.ops k (.set v) }
        | _, _ => none
      | _ => none
    else if w.startsWith "del:" then
      match ofHex (w.drop 4).toString with
      | some k => some { b with ops := smSet b.ops k .del }
      | none => none
    else if w.startsWith "idxdel:" then
      match ofHex (w.drop 7).toString with
      | some k => some { b with idxDel := b.idxDel ++ [k] }
      | none => none
    else if w.startsWith "idx:" then
      match ((w.drop 4).toString.splitOn "=") with
      | [k, v] => match ofHex k, ofHex v with
        | some k, some v => some { b with idx := b.idx ++ [(k, v)] }
        | _, _ => none
      | _ => none
    else if w.startsWith "root=" then
      match ofHex (w.drop 5).toString with
      | some r => some { b with root := r }
      | none => none
    else none) { ops := [] }

def step (d : Disk) (line : String) : Disk × String :=
  let bad := (d, "bad-op")
  match words line with
  | "blk" :: rest =>
    match parseBlk rest with
    | some b => let d' := commitBlock .single .lss d b; (d', "ok " ++ toString (version d'))
    | none => bad
  | ["rollback", t] =>
    match t.toNat? with
    | some t =>
      match rollbackBatch d t with
      | none => (d, "err")
      | some _ => let d' := applyEv .single .lss d (.rollback t); (d', "ok " ++ toString (version d') ++ " " ++ toString d'.length)
    | none => bad
  | ["crash", j] =>
    match j.toNat? with
    | some j => if j ≤ d.length then let d' := d.take j; (d', "ok " ++ toString (version d')) else bad
    | none => bad
  | ["state"] => (d, showScan (stateScan d))
  | ["stateat", v] =>
    match v.toNat? with
    | some v => (d, showScan (stateScanAt d v))
    | none => bad
  | ["idx", k] =>
    match ofHex k with
    | some k => (d, showOpt (idxGet d k))
    | none => bad
  | ["root"] => (d, "v " ++ hexOrDash (latestRoot d))
  | ["version"] => (d, "ok " ++ toString (version d))
  | _ => bad

end Driver.C09

def main : IO Unit := Driver.loopStateful ([] : Canopy.Crash.Disk) Driver.C09.step
