/-! Shared plumbing of the line-protocol drivers (core Lean only).
One op per stdin line -> one canonical line on stdout. Lines starting with `#` are echoed. -/
namespace Driver

def chomp (line : String) : String :=
  (line.dropEndWhile (fun c => c == '\n' || c == '\r')).toString

def words (line : String) : List String :=
  (line.splitOn " ").filter (· ≠ "")

/-- stateless driver loop -/
partial def loopStateless (f : String → String) : IO Unit := do
  let h ← IO.getStdin
  let out ← IO.getStdout
  let rec go : IO Unit := do
    let line ← h.getLine
    if line.isEmpty then return ()
    let l := chomp line
    if l.startsWith "#" then out.putStrLn l else out.putStrLn (f l)
    go
  go

/-- stateful driver loop; `reset` is applied at every `# case` marker -/
partial def loopStateful {σ : Type} (init : σ) (step : σ → String → σ × String) : IO Unit := do
  let h ← IO.getStdin
  let out ← IO.getStdout
  let rec go (s : σ) : IO Unit := do
    let line ← h.getLine
    if line.isEmpty then return ()
    let l := chomp line
    if l.startsWith "# case" then
      out.putStrLn l
      go init
    else if l.startsWith "#" then
      out.putStrLn l
      go s
    else
      let (s', r) := step s l
      out.putStrLn r
      go s'
  go init

end Driver
