import Driver.Ledger
/-! `driver_C04`: the M-ledger driver (shared with C12), current `SlashValidator`. -/
def main : IO Unit := Driver.loopStateful (none : Option Canopy.Ledger.Ledger) (Driver.Ledger.step true)
