import Driver.Common
import Canopy.Model.BftLiveExec
/-! Driver for C15: the C01 world (history + per-replica handlers) plus pacemaker, timer and good-round ops. -/
namespace Driver.C15
open Canopy.Bft Driver

def step (w : LWorld) (line : String) : LWorld × String := w.step (words line)

end Driver.C15

def main : IO Unit := Driver.loopStateful Canopy.Bft.LWorld.init Driver.C15.step
