import Driver.Common
import Canopy.Model.Gate
/-! Driver for C02: one `gate …` line describes node, certificate, carried block/results, the symbolic
content of the aggregate signature and the committees; the answer is the model's verdict. -/
namespace Driver.C02
open Canopy Canopy.Gate Driver

def splitOn1 (s : String) (sep : String) : List String := s.splitOn sep

def parseNat (s : String) : Option Nat := s.toNat?
def u64 (s : String) : Option UInt64 := s.toNat?.map UInt64.ofNat

def parseView (s : String) : Option (Option View) :=
  if s == "nil" then some none else
  match s.splitOn "," with
  | [h, r, p, rh, n, c] => do
    let h ← u64 h; let r ← u64 r; let p ← parseNat p; let rh ← u64 rh; let n ← u64 n; let c ← u64 c
    pure (some { height := h, round := r, phase := p, rootHeight := rh, networkId := n, chainId := c })
  | _ => none

def parseOptBytes (s : String) : Option (Option Bytes) :=
  if s == "nil" then some none else (ofHex s).map some

def parsePayload (s : String) : Option Payload :=
  match s.splitOn "/" with
  | [v, bh, rh, pk] => do
    let v ← parseView v
    let v ← v
    let bh ← ofHex bh; let rh ← ofHex rh; let pk ← ofHex pk
    pure { header := v, blockHash := bh, resultsHash := rh, proposerKey := pk }
  | _ => none

def parseBlock (s : String) : Option (Option BlockInfo) :=
  if s == "nil" then some none else
  match s.splitOn "," with
  | [d, h, l, l2, net, ht, hb, hh, txs, sz] => do
    let d ← parseNat d; let h ← parseNat h; let l ← parseNat l; let l2 ← parseNat l2; let net ← u64 net; let ht ← u64 ht
    let hb ← ofHex hb; let hh ← ofHex hh; let txs ← parseNat txs; let sz ← parseNat sz
    pure (some { decodes := d == 1, headerOK := h == 1, lastQCNetOK := l == 1, lastQCChainOK := l2 == 1, networkId := net, height := ht,
                 hashFromBytes := hb, hashFromHeader := hh, txsSize := txs, size := sz })
  | _ => none

def parseResults (s : String) : Option (Option ResultsInfo) :=
  if s == "nil" then some none else
  match s.splitOn "," with
  | [ok, h] => do
    let ok ← parseNat ok; let h ← ofHex h
    pure (some { basicOK := ok == 1, hash := h })
  | _ => none

def parsePart (p : String) : Option (KeyId × Payload) :=
  match p.splitOn "@" with
  | [k, pay] => do
    let k ← ofHex k
    let pay ← parsePayload pay
    pure (k, pay)
  | _ => none

def parseParts (parts : String) : Option (List (KeyId × Payload)) :=
  if parts == "-" then some [] else (parts.splitOn ";").mapM parsePart

def parseSig (s : String) : Option (Option AggSig) :=
  if s == "nil" then some none else
  match s.splitOn "|" with
  | [l, bits, parts, grp] => do
    let l ← parseNat l
    let bm := if bits == "-" then [] else bits.toList.map (· == '1')
    let ps ← parseParts parts
    let g ← if grp == "-" then some [] else (grp.splitOn ",").mapM ofHex
    pure (some { lenOK := l == 1, parts := ps, group := g, bitmap := bm })
  | _ => none

def parseMembers (s : String) : Option (List Member) :=
  (s.splitOn ",").mapM fun m =>
    match m.splitOn ":" with
    | [k, p] => do
      let k ← ofHex k; let p ← u64 p
      pure { key := k, power := p }
    | _ => none

def parseComs (s : String) : Option (List (UInt64 × List Member)) :=
  (s.splitOn "+").mapM fun c =>
    match c.splitOn "=" with
    | [rh, ms] => do
      let rh ← u64 rh; let ms ← parseMembers ms
      pure (rh, ms)
    | _ => none

def field (ws : List String) (name : String) : Option String :=
  (ws.find? (·.startsWith (name ++ "="))).map fun w => (w.drop (name.length + 1)).toString

def showVerdict : Verdict → String
  | .commit => "commit"
  | .reject c =>
    -- kinds the model abstracts into classes (the Go side maps the concrete codes to the same class)
    s!"reject:{c}"

def step (line : String) : String :=
  match words line with
  | "gate" :: rest =>
    let r : Option String := do
      let nodeS ← field rest "node"
      let (nh, nn, nc, nmax) ← match nodeS.splitOn "," with
        | [a, b, c, d] => do
          let a ← u64 a; let b ← u64 b; let c ← u64 c; let d ← parseNat d
          pure (a, b, c, d)
        | _ => none
      let hdr ← (field rest "hdr") >>= parseView
      let bh ← (field rest "bh") >>= parseOptBytes
      let rh ← (field rest "rh") >>= parseOptBytes
      let pk ← (field rest "pk") >>= parseOptBytes
      let blk ← (field rest "blk") >>= parseBlock
      let res ← (field rest "res") >>= parseResults
      let sig ← (field rest "sig") >>= parseSig
      let coms ← (field rest "coms") >>= parseComs
      let n : Node := { height := nh, networkId := nn, chainId := nc, maxBlockSize := nmax,
                        globalMaxBlockSize := 256 * 1000 * 1000, committeeAt := fun r => coms.lookup r }
      let q : QC := { header := hdr, blockHash := bh, resultsHash := rh, proposerKey := pk, block := blk,
                      results := res, signature := sig }
      pure (showVerdict (admitQC n q))
    r.getD "bad-op"
  | _ => "bad-op"

end Driver.C02

def main : IO Unit := Driver.loopStateless Driver.C02.step
