import Driver.Common
import Canopy.Model.Bytes
import Canopy.Model.Dex
/-! Driver for C20: stateful; several named environments (one per real `StateMachine`) per case.

Stateless arithmetic lines (`dy`, `muldiv`, `sqrtp`, `add`, `ldp`) are answered by the GENERATED functions.
Every stateful line `<env> <op> …` answers `<ok|err:Name> <canonical state dump of env>`. -/
namespace Driver.C20
open Canopy Canopy.Dex Driver

def nat? (s : String) : Option Nat := s.toNat?

def showOptNat : Option Nat → String
  | some n => toString n
  | none => "panic"

/-! ### canonical dump -/

def joinWith (sep : String) (l : List String) : String := sep.intercalate l

def showPointsFull (pts : List (Bytes × Nat)) : String :=
  joinWith "," (pts.map fun (a, p) => hexOrDash a ++ "=" ++ toString p)

/-- long tables are dumped as `#<count>:<sha256 of the full text>` -/
def showPoints (pts : List (Bytes × Nat)) : String :=
  if pts.length > 64 then "#" ++ toString pts.length ++ ":" ++ toHex (sha256 (showPointsFull pts).toUTF8.toList)
  else showPointsFull pts

/-- long lists are dumped as `#<count>:<sha256 of the full text>` -/
def abbrevList (l : List String) : String :=
  if l.length > 64 then "#" ++ toString l.length ++ ":" ++ toHex (sha256 (joinWith "," l).toUTF8.toList)
  else joinWith "," l

def showBatch (b : Batch) : String :=
  "{c=" ++ toString b.committee ++ ";rh=" ++ hexOrDash b.receiptHash ++
  ";o=" ++ abbrevList (b.orders.map fun o => toString o.amount ++ ":" ++ toString o.requested ++ ":" ++ hexOrDash o.addr ++ ":" ++ hexOrDash o.id) ++
  ";d=" ++ abbrevList (b.deposits.map fun d => toString d.amount ++ ":" ++ hexOrDash d.addr ++ ":" ++ hexOrDash d.id) ++
  ";w=" ++ abbrevList (b.withdrawals.map fun w => toString w.percent ++ ":" ++ hexOrDash w.addr ++ ":" ++ hexOrDash w.id) ++
  ";ps=" ++ toString b.poolSize ++ ";cps=" ++ toString b.counterPoolSize ++
  ";pp=" ++ showPoints b.poolPoints ++ ";tp=" ++ toString b.totalPoolPoints ++
  ";r=" ++ joinWith "," (b.receipts.map toString) ++ ";lh=" ++ toString b.lockedHeight ++
  ";lf=" ++ (if b.livenessFallback then "1" else "0") ++ "}"

def showOrder (k : Nat × Bytes) (o : SellOrder) : String :=
  toString k.1 ++ "/" ++ hexOrDash k.2 ++ "=" ++ hexOrDash o.id ++ ":" ++ toString o.committee ++ ":" ++
  toString o.amount ++ ":" ++ toString o.requested ++ ":" ++ hexOrDash o.seller ++ ":" ++ hexOrDash o.sellerRecv ++ ":" ++
  hexOrDash o.data ++ ":" ++ hexOrDash o.buyerRecv ++ ":" ++ hexOrDash o.buyerSend ++ ":" ++ toString o.deadline

def dump (s : State) : String :=
  let accts := (s.accounts.filter (·.2 ≠ 0)).mergeSort (fun a b => !bytesLt b.1 a.1)
  let pools := (s.pools.filter (·.2.amount ≠ 0)).mergeSort (fun a b => a.1 ≤ b.1)
  let orders := s.orders.mergeSort (fun a b => a.1.1 < b.1.1 || (a.1.1 == b.1.1 && !bytesLt b.1.2 a.1.2))
  let next := s.next.mergeSort (fun a b => a.1 ≤ b.1)
  let locked := s.locked.mergeSort (fun a b => a.1 ≤ b.1)
  "H=" ++ toString s.height ++
  " A[" ++ joinWith "," (accts.map fun (a, v) => hexOrDash a ++ "=" ++ toString v) ++ "]" ++
  " P[" ++ joinWith "," (pools.map fun (id, p) => toString id ++ "=" ++ toString p.amount ++ ":" ++ toString p.total ++ ":(" ++ showPoints p.points ++ ")") ++ "]" ++
  " O[" ++ joinWith "," (orders.map fun (k, o) => showOrder k o) ++ "]" ++
  " N[" ++ joinWith "," (next.map fun (k, b) => toString k ++ "=" ++ showBatch b) ++ "]" ++
  " L[" ++ joinWith "," (locked.map fun (k, b) => toString k ++ "=" ++ showBatch b) ++ "]"

/-! ### parsing -/

def splitList (s : String) : List String := if s == "-" || s == "" then [] else s.splitOn ","

def parsePoints (s : String) : Option (List (Bytes × Nat)) :=
  (splitList s).mapM fun e => match e.splitOn "=" with
    | [a, p] => do pure ((← ofHex a), (← nat? p))
    | _ => none

def parseLock (s : String) : Option (Option LockOrder) :=
  if s == "nil" then some none else
  match s.splitOn ":" with
  | [id, r, sd, d] => do pure (some { id := ← ofHex id, buyerRecv := ← ofHex r, buyerSend := ← ofHex sd, deadline := ← nat? d })
  | _ => none

def parseLimit (s : String) : Option LimitOrder :=
  match s.splitOn ":" with
  | [a, r, ad, id] => do pure { amount := ← nat? a, requested := ← nat? r, addr := ← ofHex ad, id := ← ofHex id }
  | _ => none

def parseDeposit (s : String) : Option Deposit :=
  match s.splitOn ":" with
  | [a, ad, id] => do pure { amount := ← nat? a, addr := ← ofHex ad, id := ← ofHex id }
  | _ => none

def parseWithdraw (s : String) : Option Withdraw :=
  match s.splitOn ":" with
  | [p, ad, id] => do pure { percent := ← nat? p, addr := ← ofHex ad, id := ← ofHex id }
  | _ => none

/-- `{c=..;rh=..;o=..;d=..;w=..;ps=..;cps=..;pp=..;tp=..;r=..;lh=..;lf=..}` or `nil` -/
def parseBatch (s : String) : Option (Option Batch) :=
  if s == "nil" then some none else do
  let body := ((s.drop 1).toString.dropEnd 1).toString
  let kv ← (body.splitOn ";").mapM fun f => match f.splitOn "=" with
    | k :: rest => some (k, "=".intercalate rest)
    | [] => none
  let get (k : String) : Option String := AM.get? kv k
  pure (some {
    committee := ← nat? (← get "c"), receiptHash := ← ofHex (← get "rh"),
    orders := ← (splitList (← get "o")).mapM parseLimit,
    deposits := ← (splitList (← get "d")).mapM parseDeposit,
    withdrawals := ← (splitList (← get "w")).mapM parseWithdraw,
    poolSize := ← nat? (← get "ps"), counterPoolSize := ← nat? (← get "cps"),
    poolPoints := ← parsePoints (← get "pp"), totalPoolPoints := ← nat? (← get "tp"),
    receipts := ← (splitList (← get "r")).mapM nat?, lockedHeight := ← nat? (← get "lh"),
    livenessFallback := (← get "lf") == "1" })

def stripPrefix (p s : String) : Option String :=
  if s.startsWith p then some (s.drop p.length).toString else none

/-! ### steps -/

abbrev Envs := List (String × State)

def envGet (es : Envs) (n : String) : Option State := AM.get? es n

def parseOp (ws : List String) : Option Op :=
  match ws with
  | ["fund", a, n] => do pure (.fund (← ofHex a) (← nat? n))
  | ["setpool", id, amt, tot, pts] => do
    pure (.setPool (← nat? id) { amount := ← nat? amt, points := ← parsePoints pts, total := ← nat? tot })
  | ["seednext", c, b] => do
    match ← parseBatch b with
    | some b => pure (.seedNext (← nat? c) b)
    | none => none
  | ["subsidy", a, id, n, op] => do pure (.subsidy (← ofHex a) (← nat? id) (← nat? n) (← ofHex op))
  | ["create", c, id, seller, amt, req, recv, data] => do
    pure (.create { chain := ← nat? c, id := ← ofHex id, seller := ← ofHex seller, amount := ← nat? amt,
                    requested := ← nat? req, sellerRecv := ← ofHex recv, data := ← ofHex data })
  | ["edit", c, id, amt, req, recv, data] => do
    pure (.edit { chain := ← nat? c, id := ← ofHex id, amount := ← nat? amt,
                  requested := ← nat? req, sellerRecv := ← ofHex recv, data := ← ofHex data })
  | ["delete", c, id] => do pure (.delete (← nat? c) (← ofHex id))
  | ["swaps", c, l, r, cl] => do
    let locks ← (splitList (← stripPrefix "L=" l)).mapM parseLock
    let resets ← (splitList (← stripPrefix "R=" r)).mapM ofHex
    let closes ← (splitList (← stripPrefix "C=" cl)).mapM ofHex
    pure (.swaps (← nat? c) { locks, resets, closes })
  | ["limit", c, a, r, ad, id] => do
    pure (.limit (← nat? c) { amount := ← nat? a, requested := ← nat? r, addr := ← ofHex ad, id := ← ofHex id })
  | ["deposit", c, a, ad, id] => do
    pure (.deposit (← nat? c) { amount := ← nat? a, addr := ← ofHex ad, id := ← ofHex id })
  | ["withdraw", c, p, ad, id] => do
    pure (.withdraw (← nat? c) { percent := ← nat? p, addr := ← ofHex ad, id := ← ofHex id })
  | ["dexbatch", c, nested, bh, b] => do
    pure (.dexBatch (← nat? c) (nested == "1") (← parseBatch b) (← ofHex bh))
  | ["endblock"] => some .endBlock
  | _ => none

/-- `Canopy.Dex.step` plus the status word -/
def stepEnv (s : State) (ws : List String) : Option (State × String) := do
  let op ← parseOp ws
  let s' := Canopy.Dex.step s op
  let st := match apply s op with
    | .ok _ => "ok"
    | .error e => "err:" ++ (reprStr e).replace "Canopy.Dex.Err." ""
  pure (s', st ++ " " ++ dump s')

def step (es : Envs) (line : String) : Envs × String :=
  match words line with
  -- stateless arithmetic: the generated functions
  | ["dy", x, y, dx] => match nat? x, nat? y, nat? dx with
    | some x, some y, some dx => (es, showOptNat (Gen.Dex.SafeComputeDY x y dx))
    | _, _, _ => (es, "bad-op")
  | ["muldiv", a, b, c] => match nat? a, nat? b, nat? c with
    | some a, some b, some c => (es, showOptNat (Gen.Dex.SafeMulDiv a b c))
    | _, _, _ => (es, "bad-op")
  | ["sqrtp", x, y] => match nat? x, nat? y with
    | some x, some y => (es, showOptNat (Gen.Dex.SqrtProductUint64 x y))
    | _, _ => (es, "bad-op")
  | ["add", a, b] => match nat? a, nat? b with
    | some a, some b => let (r, o) := addUint64 a b; (es, toString r ++ " " ++ (if o then "1" else "0"))
    | _, _ => (es, "bad-op")
  | ["ldp", l, x, y, a] => match nat? l, nat? x, nat? y, nat? a with
    | some l, some x, some y, some a => match liquidityDepositPoints l x y a with
      | .ok v => (es, toString v)
      | .error _ => (es, "err:InvalidLiquidityPool")
    | _, _, _, _ => (es, "bad-op")
  | [env, "init", self, root, minOrder, height] => match nat? self, nat? root, nat? minOrder, nat? height with
    | some self, some root, some minOrder, some height =>
      let s : State := { self, root, minOrder, height }
      (AM.set es env s, "ok " ++ dump s)
    | _, _, _, _ => (es, "bad-op")
  | env :: ws => match envGet es env with
    | some s => match stepEnv s ws with
      | some (s', r) => (AM.set es env s', r)
      | none => (es, "bad-op")
    | none => (es, "bad-op")
  | [] => (es, "bad-op")

end Driver.C20

def main : IO Unit := Driver.loopStateful ([] : Driver.C20.Envs) Driver.C20.step
