import Driver.Common
import Canopy.Model.Committee
import Canopy.Gen.Committee
/-! Driver for C13: validator records are upserted/deleted, versions are committed, committees are
queried for the working state (`members`) and for committed versions (`membersAt`). -/
namespace Driver.C13
open Canopy Canopy.Committee Driver

structure Snap where
  vals : List Val
  capV : UInt64
  capD : UInt64

structure St where
  vals : List Val := []          -- working state, keyed by address (insertion order irrelevant: committee_perm)
  capV : UInt64 := 0
  capD : UInt64 := 0
  version : Nat := 1             -- store version after genesis
  snaps : List (Nat × Snap) := [(1, ⟨[], 0, 0⟩)]

def parseCommittees (s : String) : Option (List UInt64) :=
  if s == "-" then some [] else (s.splitOn ",").mapM fun x => x.toNat?.map UInt64.ofNat

def upsert (vals : List Val) (v : Val) : List Val :=
  v :: vals.filter (fun x => x.address != v.address)

def showSet (ms : List Val) : String :=
  -- lib.NewValidatorSet: totalPower (uint64, unguarded sum) = 0 -> ErrNoValidators (code 29)
  let total := totalPower ms
  if total == 0 then "err:29"
  else
    let maj := Gen.Committee.minPowerFor23Maj total
    let body := ",".intercalate (ms.map fun m => hexOrDash m.publicKey ++ ":" ++ toString m.stake.toNat)
    s!"n={ms.length} total={total.toNat} maj={maj.toNat} members={body}"

def step (s : St) (line : String) : St × String :=
  match words line with
  | ["val", addr, pub, stake, cs, mp, uh, d] =>
    match ofHex addr, ofHex pub, stake.toNat?, parseCommittees cs, mp.toNat?, uh.toNat?, d.toNat? with
    | some a, some p, some st, some c, some m, some u, some dl =>
      let v : Val := { address := a, publicKey := p, stake := UInt64.ofNat st, committees := c,
                       maxPausedHeight := UInt64.ofNat m, unstakingHeight := UInt64.ofNat u, delegate := dl == 1 }
      ({ s with vals := upsert s.vals v }, "ok")
    | _, _, _, _, _, _, _ => (s, "bad-op")
  | ["delval", addr] =>
    match ofHex addr with
    | some a => ({ s with vals := s.vals.filter (fun x => x.address != a) }, "ok")
    | none => (s, "bad-op")
  | ["members", chain, cap, d] =>
    match chain.toNat?, cap.toNat?, d.toNat? with
    | some c, some k, some dl =>
      let delegate := dl == 1
      let capU := UInt64.ofNat k
      let s' := if delegate then { s with capD := capU } else { s with capV := capU }
      (s', showSet (members s.vals (UInt64.ofNat c) capU delegate))
    | _, _, _ => (s, "bad-op")
  | ["commit"] =>
    let v := s.version + 1
    ({ s with version := v, snaps := (v, ⟨s.vals, s.capV, s.capD⟩) :: s.snaps }, s!"v={v}")
  | ["membersAt", h, chain] =>
    match h.toNat?, chain.toNat? with
    | some hh, some c =>
      -- TimeMachine: 0 or beyond the current height means the latest committed version
      let hh := if hh == 0 || hh > s.version then s.version else hh
      match s.snaps.lookup hh with
      | some sn => (s, showSet (members sn.vals (UInt64.ofNat c) sn.capV false))
      | none => (s, "bad-op")
    | _, _ => (s, "bad-op")
  | ["rootinfo", h, chain] =>
    -- LoadRootChainInfo(chain, h): the committee of height h (0 = latest) and of the height before it
    match h.toNat?, chain.toNat? with
    | some hh, some c =>
      let hh := if hh == 0 || hh > s.version then s.version else hh
      let last := if hh == 1 then 1 else hh - 1
      match s.snaps.lookup hh, s.snaps.lookup last with
      | some sn, some sl =>
        -- either derivation failing (no validators) fails the whole call with that error
        let cur := showSet (members sn.vals (UInt64.ofNat c) sn.capV false)
        let lst := showSet (members sl.vals (UInt64.ofNat c) sl.capV false)
        if cur.startsWith "err:" then (s, cur)
        else if lst.startsWith "err:" then (s, lst)
        else (s, "cur " ++ cur ++ " last " ++ lst)
      | _, _ => (s, "bad-op")
    | _, _ => (s, "bad-op")
  | _ => (s, "bad-op")

end Driver.C13

def main : IO Unit := Driver.loopStateful ({} : Driver.C13.St) Driver.C13.step
