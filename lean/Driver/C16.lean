import Driver.Smt
import Canopy.Model.SmtProof
import Canopy.Gen.SmtFacts
/-! Driver for C16 / M-smt proofs. Tree building ops are those of `Driver/Smt.lean` (`new`, `commit …`,
`store`, `set`, `del`, `commit`, …); in addition:

  `prove <userkey>`                                   honest proof from the current tree (grain a)
      → `proof <key>:<value>:<bitmask> …` | `err:reserved`
  `verify <userkey> <value|-> <m|n> <root> <node>…`   `VerifyProof` as the code has it (accept/reject/err/panic/hang)
  `sproof <version> <userkey> <value|-> <m|n>`        store level: `NewReadOnly(version)`, its `Root()`, its
      `GetProof(key)` and `VerifyProof` of that proof against the root COMMITTED for that version
      → `roroot <hex> proof … verdict <v>`
-/
namespace Driver.C16
open Canopy Canopy.Smt Driver

def showPNode (p : PNode) : String := hexOrDash p.key ++ ":" ++ hexOrDash p.value ++ ":" ++ toString p.bitmask

def parsePNode (s : String) : Option PNode :=
  match s.splitOn ":" with
  | [k, v, b] => do
    let kb ← ofHex k
    let vb ← ofHex v
    let bm ← b.toNat?
    pure { key := kb, value := vb, bitmask := bm }
  | _ => none

def showVerdict : V.Verdict → String
  | .accept => "accept"
  | .reject => "reject"
  | .errInvalidProof => "err:invalid-proof"
  | .errReserved => "err:reserved"
  | .crash _ => "panic"
  | .hang => "hang"

def showProof (ps : List PNode) : String := String.intercalate " " (ps.map showPNode)

structure St where
  base : Driver.Smt.St := {}
  committed : List (Nat × Trie) := []     -- version → tree committed for it (store level)

/-- `VerifyProof` as the source has it: the repaired algorithm once `facts` sees its key validation in store/smt.go -/
def verifyNow (n : Nat) (k v : Bytes) (m : Bool) (root : Bytes) (ps : List PNode) : V.Verdict :=
  if Gen.SmtFacts.verifyProofValidatesKeys then verifyFixed Gen.SmtFacts.verifyProofChecksValueLength sha256 (h4 sha256) n k v m root ps
  else V.verify sha256 n k v m root ps

def isReserved (n : Nat) (k : Key) : Bool := k == minKey n || k == maxKey n || k == rootKey n

/-- the tree `NewReadOnly(v)` builds its proofs from (`storeProofTree` on the two prefixes `facts` reads off
store/store.go on every run) -/
def readOnlyTree (s : St) (version : Nat) : Trie :=
  readOnlyServes Gen.SmtFacts.readOnlyBuildsFreshCommitment s.base.cached (version == s.base.version)
    (storeProofTree Gen.SmtFacts.rootWritesPrefix Gen.SmtFacts.readOnlyReadsPrefix 160
      (((s.committed.find? (·.1 == version)).map (·.2)).getD (empty 160)))

def step (s : St) (line : String) : St × String :=
  match words line with
  | ["prove", k] =>
    match ofHex k with
    | none => (s, "bad-op")
    | some kb =>
      let n := s.base.n
      let key := keyOfUser n kb
      if isReserved n key then (s, "err:reserved")
      else (s, "proof " ++ showProof (prove sha4 s.base.tree key))
  | "verify" :: k :: v :: m :: root :: nodes =>
    match ofHex k, ofHex v, ofHex root, nodes.mapM parsePNode with
    | some kb, some vb, some rb, some ps =>
      if m != "m" && m != "n" then (s, "bad-op") else
      (s, showVerdict (verifyNow s.base.n kb vb (m == "m") rb ps))
    | _, _, _, _ => (s, "bad-op")
  | ["sproof", ver, k, v, m] =>
    match ver.toNat?, ofHex k, ofHex v with
    | some version, some kb, some vb =>
      if m != "m" && m != "n" then (s, "bad-op") else
      match s.committed.find? (·.1 == version) with
      | none => (s, "bad-op")
      | some (_, ct) =>
        let ro := readOnlyTree s version
        let key := keyOfUser 160 kb
        if isReserved 160 key then (s, "err:reserved") else
        let ps := prove sha4 ro key
        let verdict := verifyNow 160 kb vb (m == "m") ct.root ps
        (s, "roroot " ++ hexOrDash ro.root ++ " proof " ++ showProof ps ++ " verdict " ++ showVerdict verdict)
    | _, _, _ => (s, "bad-op")
  | _ =>
    let (b, r) := Driver.Smt.step s.base line
    -- remember the tree committed for each store version
    let committed := if b.isStore && b.version != s.base.version then (b.version, b.tree) :: s.committed else s.committed
    let committed := if line == "store" then [] else committed
    -- `rollback v`: the heights above v are gone; v itself is served from whatever tree the store now has for it
    let committed := if line.startsWith "rollback " then (b.version, b.tree) :: s.committed.filter (·.1 < b.version) else committed
    ({ base := b, committed := committed }, r)

end Driver.C16

def main : IO Unit := Driver.loopStateful ({} : Driver.C16.St) Driver.C16.step
