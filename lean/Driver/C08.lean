import Driver.Smt
/-! Driver for C08 / M-smt: see `Driver/Smt.lean` for the protocol. -/

def main : IO Unit := Driver.loopStateful ({} : Driver.Smt.St) Driver.Smt.step
