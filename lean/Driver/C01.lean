import Driver.Common
import Canopy.Model.BftExec
/-! Driver for C01: runs M-bft-abs (history + guards) and M-bft-exec (per-replica handlers over the
generated decisions) on the op lines the simulator produced from real `bft.BFT` replicas. -/
namespace Driver.C01
open Canopy.Bft Driver

def step (w : World) (line : String) : World × String :=
  match parseOp (words line) with
  | some op => w.apply op
  | none => (w, "bad-op")

end Driver.C01

def main : IO Unit := Driver.loopStateful Canopy.Bft.World.init Driver.C01.step
