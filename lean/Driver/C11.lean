import Driver.ExecStep
import Canopy.Model.Proto
/-! Driver for C11: the execution-path model (`Driver/ExecStep.lean`) plus the archive round trip:
`<node> serve <blk> <served> <tx-hex>...` is answered `same` iff every transaction of the certified
block is canonically encoded (`Canopy.Proto.decodeTx`/`canon`: what `lib.Unmarshal`/`lib.Marshal`
do), i.e. iff the block the archive re-assembles (`BlockResult.ToBlock`: re-marshalled transactions)
has the certified bytes. -/
namespace Driver.C11
open Canopy Driver

def isCanonical (raw : Bytes) : Bool :=
  match Canopy.Proto.decodeTx raw with
  | some t => Canopy.Proto.canon t == raw
  | none => false

def step (s : Driver.ExecStep.St) (line : String) : Driver.ExecStep.St × String :=
  match words line with
  | _name :: "serve" :: _blk :: _served :: txs =>
    match txs.mapM ofHex with
    | some raws => (s, if raws.all isCanonical then "same" else "differs")
    | none => (s, "bad-op")
  | _ => Driver.ExecStep.step s line

end Driver.C11

def main : IO Unit := Driver.loopStateful ({} : Driver.ExecStep.St) Driver.C11.step
