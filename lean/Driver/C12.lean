import Driver.Ledger
/-! `driver_C12`: the M-ledger driver (shared with C04), current `SlashValidator`. -/
def main : IO Unit := Driver.loopStateful (none : Option Canopy.Ledger.Ledger) (Driver.Ledger.step true)
