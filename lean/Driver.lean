import Driver.C19
/-! Line-protocol driver: `driver <Cxx>` reads one op per stdin line, writes one canonical line per op.
Lines starting with `#` (case markers) are echoed. Core Lean only. -/

def stepFor (prop : String) : Option (String → String) :=
  match prop with
  | "C19" => some Driver.C19.step
  | _ => none

partial def loopStateless (h : IO.FS.Stream) (out : IO.FS.Stream) (f : String → String) : IO Unit := do
  let line ← h.getLine
  if line.isEmpty then return ()
  let l := line.dropRightWhile (fun c => c == '\n' || c == '\r')
  if l.startsWith "#" then out.putStrLn l else out.putStrLn (f l)
  loopStateless h out f

def main (args : List String) : IO UInt32 := do
  let stdin ← IO.getStdin
  let stdout ← IO.getStdout
  match args with
  | [prop] =>
    match stepFor prop with
    | some f => loopStateless stdin stdout f; return 0
    | none => IO.eprintln s!"unknown property {prop}"; return 2
  | _ => IO.eprintln "usage: driver <Cxx>"; return 2
