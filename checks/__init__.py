"""Per-property configuration of ./check: one module per property (checks/Cxx.py defining CONFIG).
A property without a module is not claimed and must have an entry in NOT_APPLICABLE (checks/_na.py)."""
import importlib, pkgutil, os

AXIOMS = "Lean 4.33.0 kernel; axioms allowed in any property theorem: propext, Classical.choice, Quot.sound (audited on every run with collectAxioms; no native_decide, no bv_decide, no sorry)"
TRANSLATOR = "harness/gotolean + harness/cmd/facts (Go source -> Lean defs in lean/Canopy/Gen, regenerated on every run; cross-checked by the correspondence run)"
CORR = "correspondence harness (harness/cmd/<cxx> runs the real code built from /repo with -tags verif; lean/Driver/<Cxx> runs the model on the same op lines; outputs compared line by line)"

PROPS = {}
for m in pkgutil.iter_modules([os.path.dirname(__file__)]):
    if re_ok := (m.name[0] == "C" and m.name[1:].isdigit()):
        PROPS[m.name] = importlib.import_module("checks." + m.name).CONFIG

LEVELS = ("exploration", "fault_enumeration", "model_checking", "proof", "translation_validation", "other")
for _p, _c in PROPS.items():
    # the schemas only know these categories; a partial proof is still category "proof", with the
    # partiality spelled out in level_text / level_note / coverage.explanation
    if _c.get("level", "proof") not in LEVELS:
        _c["partial"] = True
        _c["level_text"] = "PARTIAL. " + _c.get("level_text", "")
        _c["level"] = "proof"

from checks._na import NOT_APPLICABLE, HOOK_COMMITS
