from checks import AXIOMS, TRANSLATOR, CORR

CONFIG = dict(
        lean_modules=["Canopy.Props.C19"],
        driver=True,
        level="proof",
        trusted_base=[AXIOMS, TRANSLATOR, CORR,
                      "hash functions are not modelled in the key theorems (keys are compared as byte strings)"],
        assumptions=["caller-supplied key components are non-nil and at most 255 bytes (explicit hypothesis WF; witness join_collides_at_256 shows it is necessary)",
                     "KeyForParams is outside the translator's subset (string -> param-space prefix) and is covered by the correspondence run only"],
        rule="cases: every generated key builder (fsm/key.go, store/indexer.go) called on boundary-heavy uint64/byte arguments incl. components > 255 bytes; JoinLenPrefix with nil/empty/long segments; DecodeLengthPrefixed on valid, mutated and random bytes. distinct_nontrivial = distinct op lines with at least one component (keys) or a non-empty input (decode), hash-counted.",
        technique="Lean 4 proof over generated key builders + differential correspondence",
        level_text="Machine-checked theorems (injectivity, prefix-range exactness) about the Lean definitions regenerated from fsm/key.go and store/indexer.go on every run; the generated definitions and the hand model of JoinLenPrefix/DecodeLengthPrefixed are additionally run against the real functions on thousands of boundary-heavy inputs.",
        level_note="Trusts Lean's kernel, the ~500-line translator (cross-checked by the differential run), and the hypothesis that key components are non-nil and <= 255 bytes (shown necessary by a witness). Sign-bytes and decoder clauses: see evidence.",
        explanation="(a) store keys: generated builders + proofs of injectivity/prefix-range; (b) sign bytes and (c) decoding are added by later stages and listed in `theorems` when present.",
    )
