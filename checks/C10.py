from checks import AXIOMS, CORR

CONFIG = dict(
        lean_modules=["Canopy.Props.C10"],
        driver=True,
        level="proof",
        trusted_base=[AXIOMS, CORR],
        assumptions=["WIP"],
        rule="WIP",
        technique="Lean 4 proof over a hand model of the store + differential correspondence",
        level_text="WIP",
        level_note="WIP",
        explanation="WIP",
    )
