from checks import AXIOMS, TRANSLATOR, CORR

CONFIG = dict(
        lean_modules=["Canopy.Props.C18", "Canopy.Proof.Mux"],
        driver=True,
        level="proof",
        thorough_seeds=1,
        drive_timeout=dict(quick=600, thorough=2400),
        trusted_base=[AXIOMS, TRANSLATOR, CORR,
                      "Go runtime: channels are FIFO, `select` may pick any ready case, a mutex serialises queueSends per stream (these ARE the model's scheduler and per-topic queues; not verified)",
                      "protobuf Envelope/Packet encoding and the encrypted transport below the MultiConn (C17) are outside this model"],
        assumptions=["EnqueueAtomic: all packets of a message are enqueued or none (explicit hypothesis of `delivery`; `partial_enqueue_merges` shows what happens without it, reproduced on the real code in the thorough tier)",
                     "SendsValid: sends use a real stream id other than the heartbeat and a size up to maxMessageSize",
                     "data-race freedom is NOT expressible in the model and is not claimed by any theorem"],
        rule="cases: (a) real MultiConn sender -> recording relay (authenticated as itself on both sides) -> real MultiConn receiver (peer registered through AddPeer): concurrent senders on up to all 6 topics, one or several goroutines per topic, message sizes {0,1,2,100,4096,65536, random < 200000} and packet-boundary sizes {chunk-1, chunk, chunk+1, 2chunk-1, 2chunk, 2chunk+1, 3chunk+7}; the model is fed the per-topic send order and the OBSERVED wire schedule and must predict the same packets (topic, EOF, length, content hash) and the same inbox contents per topic; (b) hand-driven key holder -> real receiver: scripted and random packet sequences over valid topics, the heartbeat topic, stream ids without inbox (7..98), invalid ids (>= 99), interleaved partial messages, empty packets, full-size packets; reaction after EVERY packet observed through a ping/pong barrier; (c) undecodable envelope, unknown payload type, oversized length prefix, non-packet message; (d) one byte over the 256 MB limit at real scale (quick), plus exactly-at-limit and an endless message (thorough); (e) thorough only: the partial-enqueue history on a slow link with full queues and production timeouts. distinct_nontrivial = distinct case descriptions with more than one packet per message or at least one topic switch on the wire (a), distinct packet scripts (b), each malformed kind (c), each over-limit layout (d).",
        technique="Lean 4 proof over every interleaving (sender queues, scheduler, network, receiver, consumer) + differential correspondence against real MultiConn pairs",
        level_text="Machine-checked: `delivery` / `delivery_complete` for EVERY history of sends, scheduler picks, deliveries and inbox drains (under EnqueueAtomic and SendsValid), `overlimit_closes`, `overlimit_message_closes`, `bad_stream_closes`, `closed_is_final`, `split_exact`, `packets_reassemble`; limits and topic ids regenerated from p2p/conn.go and lib/peer.pb.go on every run, source of split/Send/queueSends/queueSend/handlePacket and of the loops pinned by theorems. The clause 'none of this involves a data race' is NOT proved (not expressible); it is PARTIAL and only sampled by running the real code.",
        level_note="proof for the multiplexing logic; the data-race clause is partial (tested, not proved). EnqueueAtomic is an explicit hypothesis: on the unchanged code it can fail (queueSends times out between packets), witness `partial_enqueue_merges`, signature C18:partial-enqueue-merges-messages (thorough tier).",
        explanation="multiplexing logic: proved for all interleavings; over-limit / bad stream: proved; data race freedom: outside the model (partial). Observations outside the statement: stream ids 7..98 are assembled but have no inbox (dropped, connection stays open); the receiver's liveness window (3 s) is only refreshed after a whole packet is handled.",
    )
