from checks import AXIOMS, TRANSLATOR, CORR

CONFIG = dict(
        lean_modules=["Canopy.Props.C01"],
        driver=True,
        level="proof",
        thorough_seeds=3,
        search_seeds=3,
        drive_timeout=dict(quick=600, thorough=3000),
        trusted_base=[AXIOMS, TRANSLATOR, CORR,
                      "the multi-replica simulator harness/bftsim (mock Controller, in-process network, schedule interpreter; the commit gate mirrors controller.HandlePeerBlock with the repository's own certificate checks)",
                      "symbolic signatures and injective hashes (Dolev-Yao): BLS/BDN aggregation and SHA-256 are not verified"],
        assumptions=[
            "signatures are symbolic: only the holder of a key adds a vote under its name; a certificate for a payload exists iff the signed votes for it reach 2T/3+1 (the adversary aggregates and schedules, so loss/duplication/delay/reordering/withholding are all covered)",
            "an honest replica votes in non-decreasing views and at most once per (view, phase): true of the code iff a NEW_COMMITTEE reset strictly raises the root height (F11: UpdateRootChainInfo does not enforce it; same-root resets make honest replicas sign twice in one view — the simulator runs that schedule class and counts it separately, the theorem excludes it by hypothesis)",
            "block validity (Controller.ValidateProposal) is an oracle that accepts every well-formed block of the height",
            "the committee is the same at every root height reached during the height (committee-preserving updates, as in the property text)",
            "2*totalPower < 2^64 (NewValidatorSet computes 2*totalPower in uint64; minimumMaj23_wraps shows the threshold is wrong beyond it)",
            "election, pacemaker and timers are not modelled: they decide when views advance and who aggregates; the leader is adversarial in the model",
            "hdr.RootHeight of a leader message is not checked by the code and is taken to be the replica's root height in genCertBound; the certificate's root height IS compared with the replica's (translated)",
        ],
        rule="cases: 2 corpus schedules (F1 root-bump re-proposal, F12 stale PRECOMMIT certificate) then seeded schedules over 4-7 (thorough: up to 10) real bft.BFT replicas with real BLS keys, equal or weighted stake, 1+ Byzantine replicas below one third (equivocation, re-proposing old certificates, ignoring locks, stale certificates in PRECOMMIT/COMMIT, withholding), loss/duplication/delay/partition, lagging timers, staggered root-height bumps. One op per signed PROPOSE_VOTE/PRECOMMIT_VOTE, per lock adoption, per commit, per handler step. distinct_nontrivial = distinct vote histories (hash-counted) in which a locked honest replica evaluated SafeNode (SAFETY, LIVENESS or refusal) or adopted a lock.",
        technique="Lean 4 proof (induction over histories, quorum intersection) over decision functions translated from the Go source on every run + step/event correspondence with real multi-replica executions",
        level_text="Machine-checked agreement theorem (any committee, stake distribution, Byzantine set below one third, history length, schedule incl. root-height bumps) about a history model whose three decisions (SafeNode's unlock comparison, the lock-replacement test, the binding of a PRECOMMIT certificate to the view) and quorum threshold are Lean translations of the Go source regenerated on every run; the obligations that tie them to the proof fail if SafeNode/CheckProposerMessage are weakened. Real bft.BFT replicas are driven through adversarial schedules; every vote they sign is checked against the model's guards and every handler decision against the generated functions.",
        level_note="The theorem is about the model: signatures/hashes are symbolic, block validity is an oracle, election/pacemaker/timers are abstracted to 'views never decrease' (needs resets to raise the root height, F11), leader-side aggregation is adversarial input. The link to the code is the translator (cross-checked by the run) plus sampled correspondence, not a refinement proof of bft.go. Two agreement defects found this way were repaired in /repo (ea0b5df, 9c7b0f6); their pre-fix behaviours are kept as decide-checked counterexamples and corpus schedules.",
        explanation="T: View.Less/Equals, SafeNode (whole + LIVENESS condition), CheckHighQC post-conditions, CheckProposerMessage header checks and PRECOMMIT/COMMIT branch (justifiesLeaderPhase), HighQC replacement test, MinimumMaj23/partial-QC comparisons. R: harness/bftsim + harness/c01 vs lean/Driver/C01 (M-bft-abs guards per signed vote; M-bft-exec per handler step).",
    )
