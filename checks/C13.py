from checks import AXIOMS, TRANSLATOR, CORR

CONFIG = dict(
    lean_modules=["Canopy.Props.C13"],
    driver=True,
    level="proof",
    technique="Lean 4 proof (sorted-permutation uniqueness, top-k, uint64 threshold) over the generated comparator, PassesFilter, filter literal, cap/limit and threshold of getValidatorSet + differential correspondence on the real FSM",
    level_text="Theorems committee_perm (the ordered committee depends only on the set of validator records: ties resolved identically everywhere), members_eligible, members_length (cap, 0 = unlimited), committee_topk, totalPower_exact and threshold_exact are proved for every population; members_eq_source proves that the model is exactly the composition of the pieces regenerated from the source on every run: Validator.PassesFilter (translated, tagless switches desugared) applied to the translated filter literal and delegate-filter choice, the comparator closure of slices.SortFunc, the limit computation, and (threshold_exact) the +2/3 expression of lib.NewValidatorSet; filtered_is_fresh pins the statement that builds the candidate slice (never the cached validator list in place) and member_construction_fact the fields of each member. The remainder (caches, historical lookup) is run against the real GetCommitteeMembers / GetDelegates / LoadCommittee on random populations with ties, zero stakes, paused/unstaking mixes, caps incl. 0, stakes near 2^64, and past heights re-queried after later history.",
    level_note="Trusts Lean's kernel, the translator, and the correspondence run for the hand-modelled parts. Explicit hypotheses: distinct validator addresses (state keys guarantee it); 2*T < 2^64 for the threshold (threshold_wraps shows the generated uint64 expression is wrong beyond it: F6, not reachable while total supply < 2^63). 'Asking again later returns the same set' rests on C10 (history immutability) and is sampled here through the shared historical validator cache.",
    trusted_base=[AXIOMS, TRANSLATOR, CORR,
                  "BLS public keys are opaque byte strings in the model; key aggregation is not modelled"],
    assumptions=["validator addresses are pairwise distinct (one state key per address)",
                 "2*totalPower < 2^64 for threshold_exact (witness threshold_wraps at 2^63)",
                 "the harness writes validator records directly with SetValidator and resets the FSM's per-block caches before the first query after a write; follow-up derivations in the same block run without a reset, as in the node"],
    rule="case = one fresh FSM with a random history of validator upserts/deletes, committee/delegate queries with random chain, cap (0..5) and kind, version commits and historical queries. distinct_nontrivial = distinct (case, result) pairs whose committee has >= 2 members, plus every historical query, hash-counted.",
    explanation="The correspondence compares the full ValidatorSet (members in order with power, NumValidators, TotalPower, MinimumMaj23, or the error code) with the model after every query.",
)
