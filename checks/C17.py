from checks import AXIOMS, TRANSLATOR, CORR

CONFIG = dict(
        lean_modules=["Canopy.Props.C17", "Canopy.Proof.Transport", "Canopy.Proof.Handshake"],
        driver=True,
        level="proof",
        thorough_seeds=2,
        trusted_base=[AXIOMS, TRANSLATOR, CORR,
                      "cryptographic primitives are assumptions, stated by the shape of the models and never as axioms: ChaCha20-Poly1305 = ideal AEAD (a sealed frame opens only under the same key and nonce), X25519 = symbolic Diffie-Hellman over honest group elements (low-order points excluded), HKDF = injective one-way function of the DH secret, signatures (BLS / ed25519) unforgeable",
                      "the Go runtime, net.Conn and the buffer pool are outside the model; the in-memory duplex used by the harness stands in for TCP"],
        assumptions=["fewer than 2^64-1 frames per direction (hypothesis of the tamper theorems; `nonce_wrap_reuses` shows what happens at the wrap)",
                     "Dolev-Yao attacker: can read, drop, reorder, inject and rebuild any message from what it knows; knows every public key and its own secrets; honest ephemeral keys are fresh and secret (hypotheses `World.ephSecret`, `World.ephFresh`)",
                     "the caller stops reading at the first error for the exact-delivery clause (`tamper_detected`); `tamper_never_misdelivers` needs no such assumption"],
        rule="cases: (a) grid of write sizes {0,1,2,3,511,1023,1024,1025,2047,2048,2049,3071,3072,3073} x read-buffer sizes {1,2,3,7,512,1023,1024,1025,2048,4096} plus two-write and zero-length-buffer variants and random write/read interleavings, on REAL EncryptedConn pairs created by the real handshake over an in-memory duplex; (b) one fault (flip on a bit grid incl. tag bits, swap, dup, replay incl. already consumed frames, drop, inject, truncate at/inside a frame, close, frame of the opposite direction) at every frame index of several layouts, plus random multi-fault schedules; (c) frames sealed by a key holder that does not follow Write (oversized / zero / short header); (d) handshake scenarios: honest with equal/different network and chain ids, transparent relay, key-substituting relay forwarding identities, key-substituting relay as itself, reflection, wrong/stale signature, forged meta, low-order ephemeral keys, ciphertext reflection. distinct_nontrivial = distinct (layout, fault, position) / (write sizes, buffer sizes) / handshake scenario descriptions, hash-counted; a stream case counts only if more than one frame is involved.",
        technique="Lean 4 proof (framing over an ideal AEAD; handshake in a Dolev-Yao term model) + differential correspondence against the real EncryptedConn / NewHandshake",
        level_text="Machine-checked theorems: stream_exact / stream_live (every interleaving of writes and reads of any sizes), tamper_never_misdelivers / tamper_detected (every wire an intermediary without the key can produce), auth / no_mitm (symbolic handshake). Frame constants and incrementNonce are regenerated from the Go source on every run; Write/Read source text is pinned by a theorem; the model is run against the real code on the grid above.",
        level_note="Proof is about the model; primitives are idealised (see trusted_base). The handshake theorems are symbolic (Dolev-Yao), not computational.",
        explanation="framing: proved for all write/read size sequences and all attacker wires; handshake: proved in the symbolic model under the generated fact that NewHandshake refuses its own identity key (reflection guard); correspondence covers the listed grid and scenarios on the real code.",
    )
