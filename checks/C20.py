from checks import AXIOMS, TRANSLATOR, CORR

CONFIG = dict(
        lean_modules=["Canopy.Props.C20"],
        driver=True,
        level="proof",
        trusted_base=[AXIOMS, TRANSLATOR, CORR],
        assumptions=["DRAFT"],
        rule="DRAFT",
        technique="Lean 4 proof over generated AMM arithmetic and a hand model of the order book / DEX + differential correspondence against the real fsm.StateMachine",
        level_text="DRAFT",
        level_note="DRAFT",
        explanation="DRAFT",
    )
