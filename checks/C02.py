from checks import AXIOMS, TRANSLATOR, CORR

CONFIG = dict(
    lean_modules=["Canopy.Props.C02"],
    driver=True,
    level="proof",
    technique="Lean 4 proof (soundness of the gate decision function + per-attack corollaries, uint64 threshold) + differential correspondence with real BLS committees",
    level_text="admitQC_sound proves that the model of the finality gate commits only when the certificate names this network, chain, the node's next height, the PRECOMMIT_VOTE phase, exactly the carried block's and results' hashes, and its aggregate consists of the individual signatures — over exactly this certificate's payload — of committee members (of the committee in force at the certificate's root height) whose power is not below the generated threshold; quorum_exact turns that into >= floor(2T/3)+1 in exact arithmetic whenever 2T < 2^64. partial_rejected, retargeted_rejected (any field change of header/hashes/proposer), padding_ignored, committee_is_at_root_height cover the attacks named in the statement. The model is run against the real QuorumCertificate.CheckBasic/Check/CheckProposalBasic sequence of HandlePeerBlock with real BLS aggregate signatures on random weighted committees (sizes around bitmap byte boundaries) under 24 single deviations and their pairs; handlePeerBlock_shape pins the controller's call order from the source on every run.",
    level_note="Signatures are symbolic (an aggregate is the multiset of individual signatures it combines, bound to the ordered committee key list; an adversary can only aggregate signatures that exist). Hashes are recorded digests. CommitCertificate itself (state application) is outside this model (C03/C07). The fast-sync branch is outside the statement. The end-to-end HandlePeerBlock run on a real controller lives in the node harness (C03/C11).",
    trusted_base=[AXIOMS, TRANSLATOR, CORR,
                  "BLS12-381/BDN aggregation is modelled symbolically (Dolev-Yao): verify(keys, m, sigma) iff sigma aggregates exactly those keys' signatures on m for that committee key list",
                  "sign-bytes injectivity (payload determines header, hashes, proposer key) is the M-proto canon_injective statement of C19(b)"],
    assumptions=["2*totalPower < 2^64 for quorum_exact (C13 threshold_wraps shows what happens beyond)",
                 "the committee returned by LoadCommittee(rootChain, rootHeight) is the committee in force at that root height (C13, C10)"],
    rule="case = one random weighted committee (1..17 members) + a second committee with the same keys in another order, a valid (block, certificate) pair with real signatures of a minimal quorum, and 14 variants: valid, one signer short of the threshold, wrong phase, bad block header, wrong block network/height, oversize, bad results, other committee, unknown root height, bad last certificate ids, re-targeted round/height/chain/network/hashes/proposer/phase after signing, padding bits, forged extra signer bit, bitmap length, signature length, nil block/results, node height off by one, and random pairs. distinct_nontrivial = distinct op lines.",
    explanation="oracle on the implementation: every commit verdict is re-checked against the individual signatures the harness produced (each selected signer really signed exactly these sign bytes; power >= floor(2T/3)+1; phase/network/chain/height/hashes bound).",
)
