HOOK_COMMITS = ["8f1db09", "f0a0ebc", "2b8c50b", "3c0971f", "ac16556", "259d565","56b192c", "5e5adc9"]

_PENDING = "no check registered in this commit yet (machinery under construction; see DESIGN.md §12)"
NOT_APPLICABLE = {}
