HOOK_COMMITS = ["8f1db09", "f0a0ebc", "2b8c50b", "3c0971f"]

_PENDING = "no check registered in this commit yet (machinery under construction; see DESIGN.md §12)"
NOT_APPLICABLE = {p: _PENDING for p in
                  ["C01", "C03", "C04", "C05", "C06", "C07", "C08", "C09", "C10", "C11", "C12",
                   "C14", "C15", "C16", "C17", "C18", "C20"]}
