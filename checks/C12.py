from checks import AXIOMS, TRANSLATOR, CORR

CONFIG = dict(
        lean_modules=["Canopy.Props.C12"],
        driver=True,
        level="proof",
        trusted_base=[AXIOMS, TRANSLATOR, CORR,
                      "the ledger model lean/Canopy/Model/Ledger.lean (shared with C04) is a HAND transcription of the fsm staking code; tied to the source by the digests of the transcribed Go function bodies (Canopy.C04.handlers_pinned, regenerated on every run), regenerated error identities / constants, and the differential run on the real fsm.StateMachine"],
        assumptions=["see evidence `theorems` for what is proved at full strength and what is `_partial`",
                     "message kinds inside the model: as C04 (send, stake, editStake, unstake, pause, unpause, daoTransfer, subsidy, changeParameter incl. ConformStateToParamUpdate, SlashValidators, HandleCertificateResults for the own chain, EndBlock, genesis); DEX/order-book, vesting, plugins outside"],
        rule="cases: the C04 corpus scenarios + 150 random chains x 12 blocks on a real fsm.StateMachine with a generator biased towards staking life-cycle operations, slashes (incl. delegates, rounding to zero, forced unstake below a raised minimum), parameter changes (minimum stake up, MaxCommittees down), non-signer windows and double signers. After genesis and every block the oracle checks on the REAL state scan: Staked / DelegatedOnly / CommitteeStaked[c] / CommitteeDelegatedOnly[c] = sums over validator records; every unstaking/paused marker <-> validator in that status; and applies empty blocks (begin-block mint + EndBlock) at every future height up to the largest pending marker (first 24 heights one by one, then marker to marker) on a throw-away transaction. distinct_nontrivial = distinct whole case histories (hash-counted).",
        technique="Lean 4 proof over a hand-transcribed ledger model + differential correspondence with the real state machine",
        level_text="Machine-checked theorems about the Lean ledger model (staking tallies, marker/validator agreement, empty blocks keep applying) plus the recorded pre-repair counterexample as a theorem; the model is replayed against the real fsm.StateMachine on ~10k operations per run with full state dumps, and the property itself is evaluated on the real state after every block.",
        level_note="Trusts Lean's kernel and the hand transcription (differential run + digest pins). Which clauses are proved for all operations and which only for part of them is listed in the evidence under `theorems` (`_partial` names).",
        explanation="F3 (validator slashed to zero while unstaking kept its marker; fixed by 6a62009) is kept as theorem never_wedged_fails_without_marker_cleanup about the model variant slashNoMarkerCleanup and as corpus scenarios run on the real code.",
        drive_timeout=dict(quick=600, thorough=3000),
    )
